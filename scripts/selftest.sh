#!/bin/bash
# selftest.sh [runs-per-property]: determinism self-test of every engine (same tapes in 3 fresh processes under
# GOMAXPROCS 1/4/16, trace digests compared). Exit 0 = all identical, 2 = divergence or infrastructure failure.
set -u
. "$(dirname "$0")/env.sh"
n="${1:-300}"
"$VERIF_HOME/scripts/build.sh" all || exit 2
cd "$VERIF_HOME" || exit 2
rc=0
for p in C03 C08 C09 C10 C14 C17 C18; do
  ./bin/verif selftest --prop $p --total "$n" --seed "${VERIF_SEED:-1}" || rc=2
done
for p in C15 C16; do
  ./bin/verif-race-yield selftest --prop $p --total $((n/3)) --seed "${VERIF_SEED:-1}" || rc=2
done
exit $rc
