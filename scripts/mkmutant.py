#!/usr/bin/env python3
"""mkmutant.py <name> <file-in-repo> <old> <new> [<file> <old> <new> ...]: writes mutants/<name>.patch (a -p1 patch
against /repo's current tree) replacing the first occurrence of <old> by <new>. /repo itself is not touched."""
import sys, os, subprocess, tempfile, shutil
name=sys.argv[1]; triples=sys.argv[2:]
out=[]
tmp=tempfile.mkdtemp(dir='/var/tmp')
try:
    files={}
    for i in range(0,len(triples),3):
        f,old,new=triples[i:i+3]
        src=files.get(f) or open('/repo/'+f).read()
        if old not in src: sys.exit("pattern not found in %s: %r"%(f,old[:60]))
        files[f]=src.replace(old,new,1)
    for f,src in files.items():
        os.makedirs(os.path.join(tmp,'a',os.path.dirname(f)),exist_ok=True); os.makedirs(os.path.join(tmp,'b',os.path.dirname(f)),exist_ok=True)
        shutil.copy('/repo/'+f, os.path.join(tmp,'a',f)); open(os.path.join(tmp,'b',f),'w').write(src)
        r=subprocess.run(['diff','-u','a/'+f,'b/'+f],cwd=tmp,capture_output=True,text=True)
        out.append(r.stdout)
    open('/verif/mutants/%s.patch'%name,'w').write(''.join(out))
    print("wrote mutants/%s.patch"%name)
finally:
    shutil.rmtree(tmp)
