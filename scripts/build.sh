#!/bin/bash
# Rebuilds the simulator binaries against /repo's CURRENT working tree (hooks enabled with -tags verif).
#   build.sh plain|race|race-yield|all
# race-yield (C16): the race build against an instrumented scratch copy of the tree made by sim/cmd/lockyield, in which every
# lock acquisition of goja code is an additional scheduling point of the simulator; the copy lives under /var/tmp only
# while the build runs.
# VERIF_REPO=<dir> builds against another goja tree (mutant self-tests), VERIF_BIN=<dir> chooses the output directory.
set -u
. "$(dirname "$0")/env.sh"
cd "$VERIF_HOME/sim" || exit 2
repo="${VERIF_REPO:-/repo}"
bindir="${VERIF_BIN:-$VERIF_HOME/bin}"
mkdir -p "$bindir"
modflag=""
if [ "$repo" != /repo ]; then
  mf="$bindir/go.alt.mod"
  sed "s#=> /repo#=> $repo#" go.mod > "$mf"
  cp "$repo/go.sum" "$bindir/go.alt.sum"
  modflag="-modfile=$mf"
else
  cp /repo/go.sum go.sum 2>/dev/null
fi
what="${1:-all}"
if [ "$what" = plain ] || [ "$what" = all ]; then
  $GO build $modflag -tags verif -o "$bindir/verif" ./cmd/verif || { echo "BUILD-FAILED (plain)"; exit 2; }
fi
if [ "$what" = race ] || [ "$what" = all ]; then
  $GO build $modflag -race -tags verif -o "$bindir/verif-race" ./cmd/verif || { echo "BUILD-FAILED (race)"; exit 2; }
fi
if [ "$what" = race-yield ] || [ "$what" = all ]; then
  ycopy="$(mktemp -d /var/tmp/verif-yieldcopy.XXXXXX)"
  trap 'rm -rf "$ycopy"' EXIT
  $GO build -o "$ycopy/lockyield" ./cmd/lockyield || { echo "BUILD-FAILED (lockyield)"; exit 2; }
  "$ycopy/lockyield" "$repo" "$ycopy/repo" || { echo "BUILD-FAILED (instrumenting the tree)"; exit 2; }
  sed "s#=> /repo#=> $ycopy/repo#" go.mod > "$ycopy/go.mod"
  cp "$repo/go.sum" "$ycopy/go.sum"
  $GO build -modfile="$ycopy/go.mod" -race -tags verif,verifyield -o "$bindir/verif-race-yield" ./cmd/verif || { echo "BUILD-FAILED (race-yield)"; exit 2; }
  rm -rf "$ycopy"
fi
exit 0
