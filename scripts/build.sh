#!/bin/bash
# Rebuilds the simulator binaries against /repo's CURRENT working tree (hooks enabled with -tags verif).
#   build.sh plain|race|all
set -u
. "$(dirname "$0")/env.sh"
cd "$VERIF_HOME/sim" || exit 2
cp /repo/go.sum go.sum 2>/dev/null
mkdir -p "$VERIF_HOME/bin"
what="${1:-all}"
if [ "$what" = plain ] || [ "$what" = all ]; then
  $GO build -tags verif -o "$VERIF_HOME/bin/verif" ./cmd/verif || { echo "BUILD-FAILED (plain)"; exit 2; }
fi
if [ "$what" = race ] || [ "$what" = all ]; then
  $GO build -race -tags verif -o "$VERIF_HOME/bin/verif-race" ./cmd/verif || { echo "BUILD-FAILED (race)"; exit 2; }
fi
exit 0
