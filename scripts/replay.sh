#!/bin/bash
# replay.sh <replay-file>: rebuilds from /repo's current tree and re-executes the recorded tape in a fresh process.
set -u
. "$(dirname "$0")/env.sh"
f="$(readlink -f "$1")"
prop="$(python3 -c "import json,sys;print(json.load(open(sys.argv[1]))['property'])" "$f")" || exit 2
bindir="${VERIF_BIN:-$VERIF_HOME/bin}"
case "$prop" in
  C15|C16) flavour=race-yield; bin="$bindir/verif-race-yield" ;;
  *)       flavour=plain; bin="$bindir/verif" ;;
esac
"$VERIF_HOME/scripts/build.sh" "$flavour" || exit 2
cd "$VERIF_HOME" || exit 2
exec "$bin" replay "$f"
