#!/usr/bin/env python3
"""Regenerates /verif/MANIFEST.json from the tables below (run after adding a check)."""
import json, os
HOME = os.path.dirname(os.path.dirname(os.path.abspath(__file__)))

NA = {
"C01":"Whether a source text crashes the engine is a pure function of that text: there is no schedule, clock, fault or interleaving to simulate, only inputs to generate (fuzzing). Crashes that appear only under an injected fault are judged under the faulted property (C03/C08/C15).",
"C02":"Equivalence of a program and its compiler-decision-altering rewrite is a pure function of (program, rewrite): differential program testing, not simulation.",
"C04":"Operation sequences issued by a single caller to a single object against an ordinary-object model: deterministic stateful testing with no interleaving, clock or fault dimension.",
"C05":"Numeric identity and conversions are pure functions of expression trees; no nondeterminism or fault is involved.",
"C06":"String identity across representations is a pure function of expression trees; its one schedule-dependent aspect (unsynchronised lazy scan of imported strings shared between goroutines) is decided under C16.",
"C07":"Array semantics across storage strategies: single-caller operation sequences; the sparse/dense transition is triggered by sizes, not by schedules or faults.",
"C11":"Forwarding-proxy equivalence and the honest/lying trap lattice are enumerations of inputs and trap results; no nondeterminism or fault.",
"C12":"Number<->string exactness is a pure function of a double or a decimal string.",
"C13":"Go<->JS bridge round trips range over Go type shapes and single-caller operation sequences; 'interleaved Go-side mutations' are further operations of one sequential history with no scheduler or fault deciding anything.",
"C19":"JSON conformance is a pure function of a text or a value.",
"C20":"RegExp results are a pure function of (pattern, flags, subject, engine); the concurrency-relevant mechanism (pattern cloning per use) is decided under C16.",
}
PENDING_REASON = "check under construction in this session (engine not yet committed); it will be claimed once its check is silent on the unchanged tree, deterministic and shown sensitive"

TECH = "deterministic simulation with fault injection"
CHECKS = {
"C03": dict(engine="faultsim", ref="DESIGN.md 5.1",
  text="Seeded search over (history of outermost API calls x generated bodies x fault schedule): host-callback failures of 5 kinds, interrupts at probes and at arbitrary VM ticks, call-depth limits 0..64, interrupts while idle. Each run is one exactly replayable execution of the real goja against a simulated embedding host; oracles: idle-state invariant after every outermost return, equality of every unfaulted call with the fault-free twin history, prefix-of-counterfactual for uncatchable conditions. A clean batch is evidence, not proof.",
  note="Trusts the Go toolchain, the guarded VerifState snapshot and the confinement of generated bodies (no cross-call JS-heap state). Semantics of the continuation after a catchable fault is judged by C08's engine, not here.",
  technique=TECH+": seeded fault schedules over simulated host callbacks; counterfactual (fault-free twin) + idle-state-invariant oracles; tape-level shrinking; replay files"),
"C08": dict(engine="ctlsim", ref="DESIGN.md 5.2",
  text="Programs from a control-flow skeleton grammar (nested try/catch/finally, labelled for/while/do-while/for-in/for-of, switch, labelled blocks, array destructuring, spread, yield*, generators, instrumented iterators whose next/return/throw methods are probes) are printed as JavaScript and run by the real goja; every block head is an exit point listing every legal throw / return / break L / continue L, and a seeded DECISION SCHEDULE chooses per dynamic visit which exit fires, what each iterator method does (normal, throw, early done, non-object) and optionally where an interrupt lands; one run in eight is repeated under a call-depth limit (stack overflow must be invisible to script: prefix of the unlimited run). A definitional reference interpreter with explicit completion records (ECMA-262 try/finally override, LoopContinues, ForIn/OfBodyEvaluation + IteratorClose, IteratorBindingInitialization, spread, yield*, generator state machine) consumes the same schedule; event logs (probes, markers with values, iterator method calls, catch bindings), the final completion and the idle-state invariant are compared.",
  note="Trusts the reference interpreter (sim/ctl) as a transcription of the specification for the skeleton language; it was calibrated on the tree and every mismatch triaged against the specification text (6 genuine goja defects repaired). Statement completion values are not compared. Error objects are compared by constructor name.",
  technique=TECH+": seeded decision schedules (abrupt exits, iterator-method faults, interrupts) over generated control-flow programs; event-log refinement against an executable reference interpreter"),
"C09": dict(engine="ctlsim", ref="DESIGN.md 5.2",
  text="1-3 generator functions and up to 3 async functions from the skeleton grammar (yields/awaits in operand, argument, spread, template and destructuring-default positions, inside try/catch/finally and loops); generator objects live in globals and are driven by next(v)/throw(e)/return(v) histories issued from main, from other generator bodies and from their own body (re-entrancy), by for-of, spread, destructuring and yield* (incl. self-delegation); the decision schedule additionally chooses abrupt exits inside bodies and iterator-method faults. The reference interpreter runs every activation as a coroutine implementing the specification's generator state machine (suspendedStart/suspendedYield/executing/completed, GeneratorResumeAbrupt) and a FIFO job queue for async functions; all driver results {value, done}, thrown errors, logs and the final completion are compared.",
  note="async function* and for-await are not supported by goja's parser and are excluded. Async functions only await ints and promises of other async functions (no thenables; those are C10's).",
  technique=TECH+": seeded driver histories and decision schedules over coroutine activations; refinement against an executable reference state machine"),
"C10": dict(engine="loopsim", ref="DESIGN.md 5.3 (C10)",
  text="A simulated event loop (discrete-event heap on a simulated clock: timers, Go-side NewPromise resolvers with seeded latency/reordering/double calls, client start tasks) replaces goja_nodejs; each macrotask is one outermost call into the real runtime, after which goja drains its own job queue. Promise programs are data (constructors, resolve/reject any number of times with value/promise/thenable/self, then/catch/finally, all/allSettled/race/any, async functions with nested awaits, thenables whose then is a probe, native handlers that call back into JS) rendered to JavaScript and interpreted by a transcription of the specification's promise and job algorithms. Faults: handler/thenable throws, resolvers called twice / from inside natives / from inside jobs, interrupts in jobs and at VM ticks, call-depth limits inside jobs. Oracles: global handler order = model (FIFO), exactly-once, queue empty at every normal outermost return, rejection-tracker log = HostPromiseRejectionTracker model, State()/Result() of every promise, interrupted drains drop the remaining jobs.",
  note="Only the intrinsic Promise constructor is used (no subclassing/species/patched then). Error message texts are not compared.",
  technique=TECH+": simulated event loop and clock with seeded macrotask schedules and injected handler/interrupt faults; history checked against an executable model of the spec's promise job queue"),
"C14": dict(engine="chainsim", ref="DESIGN.md 5.1 (C14)",
  text="Call chains of depth 1-8 alternating 12 kinds of script frames (plain, catch-rethrow, finally, swallow, wrap, getter, proxy trap, generator, promise job, eval, class constructor) and 14 native calling conventions (FunctionCall, reflect with/without error, %w-wrapping, ConstructorCall, ExportTo'd funcs, Try+Object.Get, Try+ForOf, ProxyTrapConfig, DynamicObject, host swallow, nested RunProgram), entered through 5 API kinds; the fault schedule picks one of 43 payloads raised by the innermost frame (script throws of every value kind, native panics with Values/Exceptions, Go errors: sentinel, wrapped, joined, custom type; foreign panics; interrupts in natives and at VM ticks; call-depth limits). A transfer model predicts the event log, what every catch site must observe (same value / same GoError object), what each native gets back, and the host's final outcome (Value() identity, errors.Is/As/Unwrap, stack top frame = throw site, foreign panic identity); uncatchables by prefix-of-counterfactual.",
  note="Stack top frame is asserted exactly only where no rethrow/wrap frame lies between the throw and the host; pointer identity of *Exception is not asserted across script finally frames (see DESIGN.md relaxations).",
  technique=TECH+": seeded fault schedule over simulated host frames of every calling convention; error-identity transfer model + prefix-of-counterfactual oracle"),
"C15": dict(engine="faultsim+watchdog", ref="DESIGN.md 5.1, 5.4, 3.4",
  text="Interrupt schedules over generated histories: raised synchronously inside host callbacks, from the per-instruction tick hook, and by real second goroutines released at tape-chosen VM ticks (also while idle, with and without ClearInterrupt, two watchdogs in a row). The binary is built with -race and goroutine hand-off uses raw pipe syscalls that add no happens-before edge, so the race detector judges only goja's own synchronisation. Oracles: *InterruptedError carrying exactly v, event log is a prefix of the fault-free run (no catch/finally/iterator-close ran), at most B=100000 instructions after the raise, idle-state invariant, later calls equal the fault-free twin, no race report.",
  note="Interleaving granularity is the VM instruction; the race detector's bounded history makes a clean batch evidence, not proof. Trusts VerifState and the tick hook.",
  technique=TECH+": seeded interrupt schedules incl. a real interrupting goroutine serialised by HB-transparent batons under the race detector; prefix-of-counterfactual oracle"),
"C18": dict(engine="mapsim", ref="DESIGN.md 5.3 (C18)",
  text="2-4 cooperative client tasks share 1-2 Map/Set collections inside one real Runtime; a seeded scheduler decides which client steps next between top-level steps, inside every forEach callback, inside generator-based iteration clients suspended in VM frames and inside Go-side ForOf; callbacks may throw (injected). Every recorded step is applied to the specification's tombstone-list reference model in schedule order and each result, each iterator visit and size compared. Key pool of 33 SameValueZero classes / ~115 representations drawn per run.",
  note="Concurrency is cooperative task interleaving (the only kind one Runtime has); correctness reduces to equality with the sequential model in schedule order. A third collection kind is the symbol-keyed property table of an ordinary object (define/get/has/delete, getOwnPropertySymbols / Reflect.ownKeys snapshots, Object.assign and spread copies, Go-side SetSymbol/DeleteSymbol/Symbols); the live-iterator-vs-snapshot difference under side-effecting getters is deliberately not asserted.",
  technique=TECH+": seeded cooperative-task scheduler over shared collections with injected callback failures; operation-by-operation refinement against an executable reference model"),
"C16": dict(engine="racesim", ref="DESIGN.md 5.4, 3.4",
  text="2-16 real goroutines, each with its own Runtime, run ONE compiled Program (generated, biased to constructs that embed mutable-looking objects: regex literals of both engines, tagged templates, private names, static blocks, eval/with/arguments functions, generators, rendered error stacks) and operate on shared primitive Values (lazily scanned imported Go strings, concatenations, UTF-16 strings, symbols, BigInts, numbers). Exactly one goroutine runs at a time; which one and for how many VM instructions is drawn from the tape; hand-off by raw pipe syscalls adds no happens-before edge, so the race detector (binary built with -race) judges goja's own synchronisation only. Oracles: no race report or Go fatal error; each goroutine's output equals that of the same script run alone on a fresh runtime with a separately compiled program and separately built values; an Object of another runtime is rejected with TypeError.",
  note="Interleaving granularity is the VM instruction. The race detector's per-word history is bounded: a clean batch is evidence, not proof. Values are published to goroutines by the go statement (creation edge) and, for values created during the run, through a mutex-guarded mailbox as user code would; operations on mailbox values are executed but not recorded (their availability depends on the schedule).",
  technique=TECH+": seeded goroutine scheduler at VM-instruction granularity with happens-before-transparent hand-off under the race detector; isolated-run differential oracle"),
"C17": dict(engine="bufsim", ref="DESIGN.md 5.5",
  text="The simulated party is the Go host that owns the memory: ArrayBuffers are Go []byte inside guard-paged mmap slabs (PROT_NONE either side, page revoked on Detach) with canaries; a seeded fault schedule makes the host detach the buffer, detach a different buffer the operation reads next, overwrite bytes from Go, or return shorter/detached/retyped/aliased species results - inside valueOf/comparator/callback/species hooks that goja calls mid-operation. 31 operation kinds over all 11 element types and DataView. Oracles: any stray access faults (SetPanicOnFault) or corrupts a canary; fault-free steps are compared byte for byte and result for result with an ECMA-262 byte model and across aliasing views; after an injected fault the oracle is relaxed narrowly to 'throws TypeError/RangeError or completes, touching nothing outside what the fault-free step writes'.",
  note="The value clause (NumericToRawBytes for every value) is checked on the values the workloads write (boundary classes), not swept exhaustively. ArrayBuffer.prototype.slice on a detached buffer, Export() of a detached view, argument coercion order of fill and content-type errors with empty sources are deliberately not asserted (see DESIGN.md).",
  technique=TECH+": seeded host faults (detach/retarget/Go-side write/species results) injected inside callbacks of running typed-array operations over guard-paged Go memory; byte-array reference model with a narrowly relaxed oracle after faults"),
}
ENGINES = [
 dict(name="ctlsim", path="sim/ctl", serves_properties=["C08","C09"], kind_free_text="generated control-flow/generator programs under a seeded decision schedule; definitional reference interpreter (coroutines for generator/async activations)"),
 dict(name="loopsim", path="sim/engines/loopsim.go", serves_properties=["C10"], kind_free_text="simulated event loop + clock, promise programs as data, spec promise/job-queue model"),
 dict(name="chainsim", path="sim/engines/chainsim.go", serves_properties=["C14"], kind_free_text="call chains over every native calling convention with injected payloads; error-identity transfer model"),
 dict(name="racesim", path="sim/engines/racesim.go", serves_properties=["C16"], kind_free_text="seeded scheduler of real goroutines (one Runtime each) at VM-instruction granularity with HB-transparent batons, race build"),
 dict(name="bufsim", path="sim/engines/bufsim.go", serves_properties=["C17"], kind_free_text="simulated memory-owning host: guard-paged slabs, detach/write/species faults inside callbacks, byte model"),
 dict(name="faultsim", path="sim/engines/faultsim.go", serves_properties=["C03","C15"], kind_free_text="simulated embedding host (native callbacks, re-entry, watchdog goroutines, depth limits) around one real Runtime; seeded fault schedule; counterfactual/twin, prefix and idle-invariant oracles"),
 dict(name="mapsim", path="sim/engines/mapsim.go", serves_properties=["C18"], kind_free_text="seeded cooperative scheduler of client tasks over shared Map/Set with live iterators; tombstone-list reference model"),
]
ALL = ["C%02d"%i for i in range(1,21)]

def main():
    checks=[]
    for pid in sorted(CHECKS):
        c=CHECKS[pid]
        checks.append({
          "property_id":pid,"quick_cmd":"./scripts/check.sh %s quick"%pid,"thorough_cmd":"./scripts/check.sh %s thorough"%pid,
          "evidence_file":"evidence/%s.json"%pid,"replay_cmd_template":"./scripts/replay.sh {path}","engine":c["engine"],
          "level_claimed":{"category":"exploration","text":c["text"],"design_ref":c["ref"]},
          "level_note":c["note"],"technique":c["technique"]})
    na=[]
    for pid in ALL:
        if pid in CHECKS: continue
        na.append({"property_id":pid,"reason":NA.get(pid,PENDING_REASON)})
    hooks_commit=os.popen("git -C /repo log --format=%h --grep='^verif:'").read().split()
    m={"version":1,"setup_cmd":"./scripts/build.sh all",
       "hooks":{"guard":"verif","enable":"go build -tags verif (scripts/build.sh): files verif_on.go / verif_off.go plus two guarded lines in vm.go",
                "baseline_off_cmd":"cd /repo && GOFLAGS=-mod=mod GOPROXY=off GOSUMDB=off GOTOOLCHAIN=local /opt/veriftools/go1.26.8/bin/go test -vet=off -count=1 -timeout 25m ./...",
                "source_commits":hooks_commit,"add_only":True},
       "engines":ENGINES,"checks":checks,"not_applicable":na,
       "notes":"See DESIGN.md. Violations write replay files to /verif/replays (replay: ./scripts/replay.sh <file>). known_findings.json lists the genuine goja defects found and repaired by 'fix:' commits in /repo; mutants/ holds sensitivity patches (scripts/mutant.sh)."}
    json.dump(m,open(os.path.join(HOME,"MANIFEST.json"),"w"),indent=1)
    print("claimed:",sorted(CHECKS),"not_applicable:",[x["property_id"] for x in na])
main()
