#!/bin/bash
# check.sh <property> <quick|thorough>
# exit 0: property held on everything explored; exit 1 + "VIOLATION property=<id> replay=<path>"; exit 2: infrastructure.
set -u
. "$(dirname "$0")/env.sh"
prop="$1"; tier="${2:-${VERIF_TIER:-quick}}"
bindir="${VERIF_BIN:-$VERIF_HOME/bin}"
case "$prop" in
  C15) flavour=race-yield; bin="$bindir/verif-race-yield" ;;
  C16) flavour=race-yield; bin="$bindir/verif-race-yield" ;;
  *)       flavour=plain; bin="$bindir/verif" ;;
esac
"$VERIF_HOME/scripts/build.sh" "$flavour" || exit 2
cd "$VERIF_HOME" || exit 2
[ "$flavour" = plain ] && ulimit -v 33554432 2>/dev/null   # 32 GiB of address space per process (not for -race: TSan reserves TiBs)
exec "$bin" run --prop "$prop" --tier "$tier"
