#!/bin/bash
# check.sh <property> <quick|thorough>
# exit 0: property held on everything explored; exit 1 + "VIOLATION property=<id> replay=<path>"; exit 2: infrastructure.
set -u
. "$(dirname "$0")/env.sh"
prop="$1"; tier="${2:-${VERIF_TIER:-quick}}"
case "$prop" in
  C15|C16) flavour=race; bin="$VERIF_HOME/bin/verif-race" ;;
  *)       flavour=plain; bin="$VERIF_HOME/bin/verif" ;;
esac
"$VERIF_HOME/scripts/build.sh" "$flavour" || exit 2
cd "$VERIF_HOME" || exit 2
ulimit -v 33554432 2>/dev/null   # 32 GiB of address space per process
exec "$bin" run --prop "$prop" --tier "$tier"
