# Sourced by every script: a self-contained offline Go environment (never trust the caller's).
export GOFLAGS=-mod=mod GOPROXY=off GOSUMDB=off GOTOOLCHAIN=local GONOSUMDB='*' GONOSUMCHECK=1 GOFLAGS=-mod=mod
export GO=/opt/veriftools/go1.26.8/bin/go
export VERIF_HOME="${VERIF_HOME:-$(cd "$(dirname "${BASH_SOURCE[0]}")/.." && pwd)}"
