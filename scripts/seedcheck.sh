#!/bin/bash
# seedcheck.sh <seed-dir> : confirms a seeded breaking change (patch.diff + demo_test.go|demo/main.go) in a scratch copy
# of /repo: (1) the unedited suite passes with the patch, (2) the demonstration passes without and fails with it.
# Prints CONFIRMED or NOT-CONFIRMED; leaves nothing behind.
set -u
. "$(dirname "$0")/env.sh"
d="$(readlink -f "$1")"
scratch="$(mktemp -d /var/tmp/verif-seed.XXXXXX)"
trap 'rm -rf "$scratch"' EXIT
mkdir -p "$scratch/repo"
(cd /repo && git ls-files -z | xargs -0 cp --parents -t "$scratch/repo") || exit 2
cd "$scratch/repo" || exit 2
race=""
grep -qi "race" "$d/NOTES.md" 2>/dev/null && grep -q -- "-race" "$d/NOTES.md" && race="-race"
rundemo() {
  if [ -f "$d/demo_test.go" ]; then
    cp "$d/demo_test.go" ./zz_seed_demo_test.go
    tests="$(grep -o 'func Test[A-Za-z0-9_]*' zz_seed_demo_test.go | sed 's/func //' | paste -sd'|')"
    $GO test $race -vet=off -count=1 -run "^($tests)\$" . > "$scratch/demo.log" 2>&1; rc=$?
    rm -f ./zz_seed_demo_test.go
    return $rc
  else
    mkdir -p zz_demo && cp "$d"/demo/*.go zz_demo/ && $GO run $race ./zz_demo > "$scratch/demo.log" 2>&1; rc=$?
    rm -rf zz_demo; return $rc
  fi
}
rundemo; base=$?
pf="$d/patch.diff"; [ -f "$d/patch.rebased.diff" ] && pf="$d/patch.rebased.diff"
git apply --unsafe-paths "$pf" 2>/dev/null || patch -p1 -s < "$pf" || { echo "NOT-CONFIRMED patch does not apply"; exit 1; }
$GO test -vet=off -count=1 ./... > "$scratch/suite.log" 2>&1; suite=$?
rundemo; withp=$?
echo "demo-without-patch rc=$base  suite-with-patch rc=$suite  demo-with-patch rc=$withp"
if [ $base = 0 ] && [ $suite = 0 ] && [ $withp != 0 ]; then echo "CONFIRMED $d"; exit 0; fi
tail -5 "$scratch/demo.log"; echo "NOT-CONFIRMED $d"; exit 1
