#!/bin/bash
# mutants_all.sh [tier] : sensitivity regression. Runs every patch of mutants/ (re-introduced repaired defects and
# design mutants, table mutants/MAP.tsv) and every seeded change of seeded/*/ against the check of its property in a
# scratch copy of /repo (scripts/mutant.sh) and writes one line per run to mutants/RESULTS.txt.
# Exit 0 if every patch is caught by at least one of its listed properties' checks.
set -u
. "$(dirname "$0")/env.sh"
cd "$VERIF_HOME" || exit 2
tier="${1:-quick}"
out=mutants/RESULTS.txt; : > "$out"
rc=0
run() { # patch prop
  r=$(./scripts/mutant.sh "$1" "$2" "$tier" 2>&1 | grep -E "^(CAUGHT|MISSED|PATCH-FAILED|INFRA|SUITE)|^violation" | head -2 | cut -c1-220 | tr '\n' '|')
  echo "$1 $2 :: $r" >> "$out"
  case "$r" in *CAUGHT*) return 0;; esac
  case "$r" in violation*) return 0;; esac
  return 1
}
while IFS=$'\t' read -r patch props; do
  case "$patch" in \#*|"") continue;; esac
  ok=1
  for p in $props; do run "mutants/$patch" "$p" && ok=0; done
  [ $ok = 0 ] || { echo "NOT-CAUGHT mutants/$patch" >> "$out"; rc=1; }
done < mutants/MAP.tsv
for d in seeded/*/; do
  id=$(basename "$d"); prop=${id%%-*}
  patch="$d/patch.diff"; [ -f "$d/patch.rebased.diff" ] && patch="$d/patch.rebased.diff"
  [ "$id" = C03-A ] && prop=C08   # caught by C08 only (DESIGN.md section 15)
  grep -q '"retired"' "$d/meta.json" 2>/dev/null && { echo "$patch $prop :: RETIRED (see meta.json)" >> "$out"; continue; }
  run "$patch" "$prop" || { echo "NOT-CAUGHT $patch" >> "$out"; rc=1; }
done
echo "DONE rc=$rc" >> "$out"
exit $rc
