#!/bin/bash
# mutant.sh <patch-file> <property> [tier] : sensitivity self-test.
# Applies a deliberate property-breaking patch to a scratch copy of /repo (never to /repo itself), optionally confirms
# that the baseline suite still passes there (VERIF_MUTANT_SUITE=1), runs the property's check against the scratch copy
# and removes the copy. Prints CAUGHT / MISSED. Evidence and replays of these runs go to the scratch dir, not /verif.
set -u
. "$(dirname "$0")/env.sh"
patch="$(readlink -f "$1")"; prop="$2"; tier="${3:-quick}"
scratch="$(mktemp -d /var/tmp/verif-mutant.XXXXXX)"
trap 'rm -rf "$scratch"' EXIT
mkdir -p "$scratch/repo" "$scratch/out"
(cd /repo && git ls-files -z | xargs -0 cp --parents -t "$scratch/repo") || exit 2
(cd "$scratch/repo" && patch -p1 -s < "$patch") || { echo "PATCH-FAILED $patch"; exit 2; }
if [ "${VERIF_MUTANT_SUITE:-0}" = 1 ]; then
  (cd "$scratch/repo" && $GO test -vet=off -count=1 -timeout 25m ./... > "$scratch/suite.log" 2>&1) || { echo "SUITE-FAILS-WITH-MUTANT $patch"; tail -20 "$scratch/suite.log"; exit 3; }
  echo "suite still passes with $(basename "$patch")"
fi
VERIF_REPO="$scratch/repo" VERIF_BIN="$scratch/bin" VERIF_OUT="$scratch/out" "$VERIF_HOME/scripts/check.sh" "$prop" "$tier" > "$scratch/check.log" 2>&1
rc=$?
grep -E "^(verif:|violation:|VIOLATION|KNOWN|OK|worker|a worker|HARNESS|WATCHDOG)" "$scratch/check.log" | cut -c1-300 | head -12
if [ $rc = 1 ]; then echo "CAUGHT $(basename "$patch") by $prop"; exit 0; fi
if [ $rc = 0 ]; then echo "MISSED $(basename "$patch") by $prop"; exit 1; fi
echo "INFRA rc=$rc"; tail -20 "$scratch/check.log"; exit 2
