package core

import (
	"encoding/json"
	"fmt"
	"os"
	"path/filepath"
	"regexp"
)

// ReplayFile is the on-disk form of one failing (minimised) run.
type ReplayFile struct {
	Property    string     `json:"property"`
	Engine      string     `json:"engine"`
	Tier        string     `json:"tier"`
	Seed        uint64     `json:"seed"`
	RunIndex    uint64     `json:"run_index"`
	W           []uint32   `json:"tape_workload"`
	S           []uint32   `json:"tape_schedule"`
	OrigLen     [2]int     `json:"original_tape_len"`
	ShrinkRuns  int        `json:"shrink_runs"`
	Violation   *Violation `json:"violation"`
	Fatal       string     `json:"fatal_output,omitempty"` // Go runtime / race detector diagnostic when the worker died
	TraceDigest string     `json:"trace_digest"`
	Note        string     `json:"note,omitempty"`
	// History: run indices (live tapes of Seed) that the same OS process had executed before this tape. Only set when the
	// violation (a race report) does not reproduce from the tape alone because it depends on process-wide state of the
	// code under test (lazily built package-level tables): the replay then executes those runs first, in one process.
	History []uint64 `json:"process_history,omitempty"`
}

func Home() string {
	if h := os.Getenv("VERIF_HOME"); h != "" {
		return h
	}
	exe, err := os.Executable()
	if err == nil {
		d := filepath.Dir(filepath.Dir(exe))
		if _, err := os.Stat(filepath.Join(d, "properties.jsonl")); err == nil {
			return d
		}
	}
	return "/verif"
}

// OutDir is where evidence and replay files are written: VERIF_OUT when set (mutant self-tests), else Home().
func OutDir() string {
	if h := os.Getenv("VERIF_OUT"); h != "" {
		return h
	}
	return Home()
}

func WriteReplay(rf *ReplayFile) (string, error) {
	dir := filepath.Join(OutDir(), "replays")
	if err := os.MkdirAll(dir, 0o755); err != nil {
		return "", err
	}
	name := fmt.Sprintf("%s-%s-seed%d-run%d.json", rf.Property, sanitize(rf.Violation.Rule), rf.Seed, rf.RunIndex)
	p := filepath.Join(dir, name)
	b, _ := json.MarshalIndent(rf, "", " ")
	return p, os.WriteFile(p, b, 0o644)
}

func ReadReplay(path string) (*ReplayFile, error) {
	b, err := os.ReadFile(path)
	if err != nil {
		return nil, err
	}
	rf := &ReplayFile{}
	if err := json.Unmarshal(b, rf); err != nil {
		return nil, err
	}
	return rf, nil
}

var sanRe = regexp.MustCompile(`[^A-Za-z0-9_.-]+`)

func sanitize(s string) string { return sanRe.ReplaceAllString(s, "_") }

// KnownFindings is /verif/known_findings.json. It is read-only at run time.
type KnownFindings struct {
	Known []KnownEntry `json:"known"`
	Fixed []string     `json:"fixed"`
}

type KnownEntry struct {
	Property string `json:"property"`
	Rule     string `json:"rule"`      // regexp over Violation.Rule
	SigMatch string `json:"signature"` // regexp over Violation.Sig (the minimised run's signature)
	What     string `json:"what"`
	ruleRe   *regexp.Regexp
	sigRe    *regexp.Regexp
}

func LoadKnown() (*KnownFindings, error) {
	kf := &KnownFindings{}
	b, err := os.ReadFile(filepath.Join(Home(), "known_findings.json"))
	if err != nil {
		if os.IsNotExist(err) {
			return kf, nil
		}
		return nil, err
	}
	if err := json.Unmarshal(b, kf); err != nil {
		return nil, err
	}
	for i := range kf.Known {
		e := &kf.Known[i]
		if e.ruleRe, err = regexp.Compile("^(?:" + e.Rule + ")$"); err != nil {
			return nil, err
		}
		if e.sigRe, err = regexp.Compile("^(?:" + e.SigMatch + ")$"); err != nil {
			return nil, err
		}
	}
	return kf, nil
}

func (kf *KnownFindings) Match(prop string, v *Violation) *KnownEntry {
	for i := range kf.Known {
		e := &kf.Known[i]
		if e.Property == prop && e.ruleRe.MatchString(v.Rule) && e.sigRe.MatchString(v.Sig) {
			return e
		}
	}
	return nil
}
