package core

import (
	"bufio"
	"bytes"
	"encoding/json"
	"fmt"
	"hash/fnv"
	"os"
	"os/exec"
	"path/filepath"
	"runtime"
	"runtime/debug"
	"sort"
	"strconv"
	"strings"
	"sync"
	"sync/atomic"
	"time"
)

// ---- worker side -----------------------------------------------------------------------------------------------

type wmsg struct {
	T        string            `json:"t"` // start | viol | known | sum
	Idx      uint64            `json:"idx,omitempty"`
	Replay   *ReplayFile       `json:"replay,omitempty"`
	Known    string            `json:"known,omitempty"`
	Evals    int64             `json:"evals,omitempty"`
	Steps    int64             `json:"steps,omitempty"`
	SimMs    int64             `json:"sim_ms,omitempty"`
	OOS      int64             `json:"oos,omitempty"`
	Sigs     []uint64          `json:"sigs,omitempty"`
	AllSigs  int64             `json:"all_sigs,omitempty"`
	Counters map[string]int64  `json:"counters,omitempty"`
	Samples  []string          `json:"samples,omitempty"`
	Digests  map[string]string `json:"digests,omitempty"`
}

func hash64(s string) uint64 {
	h := fnv.New64a()
	h.Write([]byte(s))
	return h.Sum64()
}

// SafeRun runs the engine and converts an escaped Go panic into a harness failure (exit 2): engines are expected to
// recover whatever goja may legitimately or illegitimately panic with and to judge it themselves.
func SafeRun(e Engine, t *Tape, want bool) (res *Result) {
	// The run executes on its own goroutine so that an engine can abandon it with AbortRun() when the code under test
	// keeps executing after its step budget is long exceeded (e.g. because it swallows the panic raised by the tick hook).
	done := make(chan *Result, 1)
	runStarted.Store(time.Now().UnixNano())
	go func() {
		defer func() {
			select {
			case done <- nil: // reached without a result: the goroutine is exiting through AbortRun()
			default:
			}
		}()
		defer func() {
			if x := recover(); x != nil {
				fmt.Fprintf(os.Stderr, "HARNESS-PANIC: %v\n%s\n", x, debug.Stack())
				os.Exit(2)
			}
		}()
		done <- e.Run(t, want)
	}()
	res = <-done
	runStarted.Store(0)
	if res == nil {
		res = &Result{}
		res.Fail("nontermination", "nontermination run-aborted", "the run had to be abandoned: the code under test kept executing VM instructions after twice its instruction budget (the fault-free reference finished within budget)", "")
	}
	return res
}

// AbortRun abandons the current simulated run (see SafeRun). Deferred functions of the goroutine run, recover() sees nothing.
func AbortRun() { runtime.Goexit() }

func replayRule(e Engine, w, s []uint32) string {
	r := SafeRun(e, NewReplayTape(w, s), false)
	if r.Violation == nil {
		return ""
	}
	return r.Violation.Rule
}

// hang watchdog: a single simulated run takes milliseconds; if one does not come back within hangLimit of wall-clock
// time the code under test is stuck in a loop that executes no VM instruction (the engines bound instruction counts
// themselves). The process reports it and exits; the parent attributes it to the announced run and re-executes that
// run in a fresh process to confirm.
var runStarted atomic.Int64

func hangLimit() time.Duration {
	if v := os.Getenv("VERIF_HANG_S"); v != "" {
		if n, err := strconv.Atoi(v); err == nil {
			return time.Duration(n) * time.Second
		}
	}
	return 90 * time.Second
}

func startHangWatchdog() {
	lim := hangLimit()
	go func() {
		for {
			time.Sleep(time.Second)
			if s := runStarted.Load(); s != 0 && time.Since(time.Unix(0, s)) > lim {
				fmt.Fprintf(os.Stderr, "HANG-WATCHDOG: a simulated run did not return within %v\n", lim)
				// where is it stuck: the stacks of all goroutines (the engine's is the one below core.SafeRun)
				buf := make([]byte, 1<<18)
				buf = buf[:runtime.Stack(buf, true)]
				os.Stderr.Write(buf)
				os.Exit(3)
			}
		}
	}()
}

func WorkerMain(spec *Spec, tier string, seed uint64, wid, nw int, total uint64, deadline time.Time, wantDigests bool) int {
	startHangWatchdog()
	out := bufio.NewWriterSize(os.Stdout, 1<<16)
	enc := json.NewEncoder(out)
	emit := func(m *wmsg) { enc.Encode(m); out.Flush() }
	kf, err := LoadKnown()
	if err != nil {
		fmt.Fprintf(os.Stderr, "known_findings.json: %v\n", err)
		return 2
	}
	eng := spec.New(tier)
	sum := &wmsg{T: "sum", Counters: map[string]int64{}}
	if wantDigests {
		sum.Digests = map[string]string{}
	}
	sigs := map[uint64]struct{}{}
	allSigs := map[uint64]struct{}{}
	shrinkBudget, shrinkRuns := 25*time.Second, 4000
	if tier == "thorough" {
		shrinkBudget, shrinkRuns = 90*time.Second, 20000
	}
	code := 0
	for idx := uint64(wid); idx < total; idx += uint64(nw) {
		if time.Now().After(deadline) {
			break
		}
		emit(&wmsg{T: "start", Idx: idx})
		tape := NewLiveTape(seed, idx)
		res := SafeRun(eng, tape, len(sum.Samples) < 1)
		sum.Evals++
		sum.Steps += res.Steps
		sum.SimMs += res.SimTimeMs
		for k, v := range res.Counters {
			sum.Counters[k] += v
		}
		if wantDigests {
			sum.Digests[strconv.FormatUint(idx, 10)] = res.Digest
		}
		if res.OutOfScope != "" {
			sum.OOS++
			fmt.Fprintf(os.Stderr, "OUT-OF-SCOPE seed=%d run=%d: %s\n", seed, idx, res.OutOfScope)
			continue
		}
		if res.Sig != "" {
			allSigs[hash64(res.Sig)] = struct{}{}
			if res.NonTrivial {
				sigs[hash64(res.Sig)] = struct{}{}
			}
		}
		if res.Sample != "" && len(sum.Samples) < 1 && res.NonTrivial {
			sum.Samples = append(sum.Samples, Trunc(res.Sample, 6000))
		}
		if res.Violation == nil {
			continue
		}
		// minimise
		w, s := tape.Recorded()
		rule := res.Violation.Rule
		// announce the unminimised violation first: if minimisation kills this process (a candidate tape may hang the
		// code under test) the parent still has the violation
		emit(&wmsg{T: "viol0", Idx: idx, Replay: &ReplayFile{Property: spec.Property, Engine: spec.EngineName, Tier: tier, Seed: seed, RunIndex: idx,
			W: w, S: s, OrigLen: [2]int{len(w), len(s)}, Violation: res.Violation, TraceDigest: res.Digest, Note: "not minimised: the worker died while minimising"}})
		bw, bs, n := Shrink(w, s, rule, shrinkBudget, shrinkRuns, func(cw, cs []uint32) string { return replayRule(eng, cw, cs) })
		fin := SafeRun(eng, NewReplayTape(bw, bs), true)
		if fin.Violation == nil || fin.Violation.Rule != rule {
			// the minimised tape must reproduce in a fresh engine run; if not, the engine is nondeterministic
			fmt.Fprintf(os.Stderr, "NONDETERMINISTIC: seed=%d run=%d rule=%s did not reproduce after shrinking\n", seed, idx, rule)
			return 2
		}
		rf := &ReplayFile{Property: spec.Property, Engine: spec.EngineName, Tier: tier, Seed: seed, RunIndex: idx,
			W: bw, S: bs, OrigLen: [2]int{len(w), len(s)}, ShrinkRuns: n, Violation: fin.Violation, TraceDigest: fin.Digest}
		if k := kf.Match(spec.Property, fin.Violation); k != nil {
			emit(&wmsg{T: "known", Idx: idx, Known: k.What})
			continue
		}
		emit(&wmsg{T: "viol", Idx: idx, Replay: rf})
		code = 1
		break
	}
	for h := range sigs {
		sum.Sigs = append(sum.Sigs, h)
	}
	sum.AllSigs = int64(len(allSigs))
	emit(sum)
	return code
}

// ---- parent side -----------------------------------------------------------------------------------------------

type Evidence struct {
	PropertyID  string                 `json:"property_id"`
	Tier        string                 `json:"tier"`
	Seed        int64                  `json:"seed"`
	Level       string                 `json:"level"`
	Coverage    map[string]interface{} `json:"coverage"`
	Assumptions []string               `json:"assumptions"`
	WallS       float64                `json:"wall_s"`
	Violations  int                    `json:"violations"`
}

func fatalKind(stderr string) string {
	switch {
	case strings.Contains(stderr, "HANG-WATCHDOG:"):
		return "fatal:hang"
	case strings.Contains(stderr, "WARNING: DATA RACE"):
		return "fatal:data-race"
	case strings.Contains(stderr, "fatal error: concurrent map"):
		return "fatal:concurrent-map"
	case strings.Contains(stderr, "unexpected fault address"), strings.Contains(stderr, "SIGSEGV"), strings.Contains(stderr, "SIGBUS"):
		return "fatal:memory-fault"
	case strings.Contains(stderr, "fatal error:"):
		return "fatal:go-runtime"
	}
	return ""
}

// hangSig extracts a stable signature from the goroutine dump printed by the hang watchdog: the innermost frames of the
// goroutine that runs the engine (the one started by core.SafeRun).
func hangSig(stderr string) string {
	i := strings.Index(stderr, "HANG-WATCHDOG:")
	if i < 0 {
		return ""
	}
	for _, blk := range strings.Split(stderr[i:], "\n\n") {
		if !strings.Contains(blk, "core.SafeRun.func") || !strings.HasPrefix(strings.TrimSpace(blk), "goroutine ") {
			continue
		}
		var fns []string
		for _, l := range strings.Split(blk, "\n")[1:] {
			if strings.HasPrefix(l, "\t") || l == "" {
				continue
			}
			if j := strings.LastIndex(l, "("); j > 0 {
				l = l[:j]
			}
			l = strings.TrimPrefix(l, "github.com/dop251/goja.")
			if strings.HasPrefix(l, "runtime.") || strings.HasPrefix(l, "internal/") {
				continue
			}
			fns = append(fns, l)
			if len(fns) == 3 {
				break
			}
		}
		return "blocked in " + strings.Join(fns, " <- ")
	}
	return ""
}

// raceSig extracts a stable signature from a race report: the function names of the top frames of both accesses.
func raceSig(stderr string) string {
	var fns []string
	lines := strings.Split(stderr, "\n")
	for i, l := range lines {
		if strings.HasPrefix(l, "Write at") || strings.HasPrefix(l, "Read at") || strings.HasPrefix(l, "Previous write at") || strings.HasPrefix(l, "Previous read at") {
			if i+1 < len(lines) {
				f := strings.TrimSpace(lines[i+1])
				if j := strings.LastIndex(f, "("); j > 0 {
					f = f[:j]
				}
				f = strings.TrimPrefix(f, "github.com/dop251/goja.")
				fns = append(fns, strings.Fields(l)[0]+":"+f)
			}
		}
		if len(fns) == 2 {
			break
		}
	}
	sort.Strings(fns)
	return strings.Join(fns, "|")
}

// execHangS, when set, is the hang limit (seconds) of the child processes started by execTape. Only used while a hang
// is being minimised (a hanging run normally takes milliseconds, so a short limit discriminates well); the minimised tape
// is confirmed once more under the normal limit.
var execHangS string

type tailBuf struct {
	mu  sync.Mutex
	buf []byte
}

func (t *tailBuf) Write(p []byte) (int, error) {
	t.mu.Lock()
	t.buf = append(t.buf, p...)
	if len(t.buf) > 1<<17 {
		t.buf = t.buf[len(t.buf)-(1<<16):]
	}
	t.mu.Unlock()
	return len(p), nil
}
func (t *tailBuf) String() string { t.mu.Lock(); defer t.mu.Unlock(); return string(t.buf) }

// execTape runs one tape in a child process and returns (rule, result digest, stderr). Used for fatal-crash shrinking
// and for replay, where the run may kill the process.
func execTape(prop, tier string, w, s []uint32) (rule string, v *Violation, digest string, stderr string, err error) {
	return execTapeH(prop, tier, 0, nil, w, s)
}

// execTapeH: like execTape, but the child first executes the live tapes `hist` of `seed` (the runs the original process
// had executed before), so that process-wide state of the code under test is what it was.
func execTapeH(prop, tier string, seed uint64, hist []uint64, w, s []uint32) (rule string, v *Violation, digest string, stderr string, err error) {
	in, _ := json.Marshal(&ReplayFile{W: w, S: s, Seed: seed, History: hist})
	cmd := exec.Command(os.Args[0], "exec", "--prop", prop, "--tier", tier)
	cmd.Env = append(os.Environ(), "GORACE=halt_on_error=1 exitcode=66")
	if execHangS != "" {
		cmd.Env = append(cmd.Env, "VERIF_HANG_S="+execHangS)
	}
	cmd.Stdin = bytes.NewReader(in)
	var so, se bytes.Buffer
	cmd.Stdout, cmd.Stderr = &so, &se
	runErr := cmd.Run()
	stderr = se.String()
	if k := fatalKind(stderr); k != "" {
		sig := raceSig(stderr)
		if k == "fatal:hang" {
			sig = hangSig(stderr)
		}
		return k, &Violation{Rule: k, Msg: k + " " + sig, Sig: k + " " + sig}, "", stderr, nil
	}
	if runErr != nil {
		if ee, ok := runErr.(*exec.ExitError); !ok || ee.ExitCode() != 1 {
			return "", nil, "", stderr, fmt.Errorf("exec child failed: %v\n%s", runErr, Trunc(stderr, 4000))
		}
	}
	var out struct {
		Violation *Violation `json:"violation"`
		Digest    string     `json:"digest"`
	}
	if e := json.Unmarshal(so.Bytes(), &out); e != nil {
		return "", nil, "", stderr, fmt.Errorf("exec child output: %v: %s", e, Trunc(so.String(), 2000))
	}
	if out.Violation != nil {
		rule = out.Violation.Rule
	}
	return rule, out.Violation, out.Digest, stderr, nil
}

// ExecMain: read a tape from stdin, run once, print {violation,digest}; exit 1 if violated.
func ExecMain(spec *Spec, tier string) int {
	rf := &ReplayFile{}
	if err := json.NewDecoder(os.Stdin).Decode(rf); err != nil {
		fmt.Fprintln(os.Stderr, err)
		return 2
	}
	startHangWatchdog()
	for _, idx := range rf.History {
		SafeRun(spec.New(tier), NewLiveTape(rf.Seed, idx), false)
	}
	res := SafeRun(spec.New(tier), NewReplayTape(rf.W, rf.S), true)
	b, _ := json.Marshal(map[string]interface{}{"violation": res.Violation, "digest": res.Digest})
	os.Stdout.Write(b)
	if res.Violation != nil {
		return 1
	}
	return 0
}

func ReplayMain(path string) int {
	rf, err := ReadReplay(path)
	if err != nil {
		fmt.Fprintln(os.Stderr, err)
		return 2
	}
	spec := Registry[rf.Property]
	if spec == nil {
		fmt.Fprintf(os.Stderr, "unknown property %q\n", rf.Property)
		return 2
	}
	rule, v, digest, stderr, err := execTapeH(rf.Property, rf.Tier, rf.Seed, rf.History, rf.W, rf.S)
	if err != nil {
		fmt.Fprintln(os.Stderr, err)
		return 2
	}
	if rule == "" {
		fmt.Printf("NOT-REPRODUCED property=%s replay=%s (the property holds on this tape for the current tree)\n", rf.Property, path)
		return 0
	}
	fmt.Printf("rule=%s\nmessage=%s\ntrace_digest=%s\n", rule, v.Msg, digest)
	if v.Detail != "" {
		fmt.Println(v.Detail)
	}
	if strings.HasPrefix(rule, "fatal:") {
		fmt.Println(Trunc(stderr, 6000))
	}
	same := rule == rf.Violation.Rule && (rf.TraceDigest == "" || digest == rf.TraceDigest)
	if !same {
		fmt.Printf("REPLAY-DIFFERS recorded rule=%s digest=%s\n", rf.Violation.Rule, rf.TraceDigest)
	}
	fmt.Printf("VIOLATION property=%s replay=%s\n", rf.Property, path)
	return 1
}

func RunMain(prop, tier string, seed uint64) int {
	spec := Registry[prop]
	if spec == nil {
		fmt.Fprintf(os.Stderr, "unknown property %q\n", prop)
		return 2
	}
	start := time.Now()
	total, capS := spec.QuickRuns, spec.QuickCapS
	if tier == "thorough" {
		total, capS = spec.ThoroughRun, spec.ThoroughCap
	}
	if v := os.Getenv("VERIF_RUNS"); v != "" {
		total, _ = strconv.Atoi(v)
	}
	if v := os.Getenv("VERIF_CAP_S"); v != "" {
		capS, _ = strconv.Atoi(v)
	}
	nw := runtime.NumCPU()
	if v := os.Getenv("VERIF_WORKERS"); v != "" {
		nw, _ = strconv.Atoi(v)
	}
	if nw > total {
		nw = total
	}
	if nw < 1 {
		nw = 1
	}
	deadline := start.Add(time.Duration(capS) * time.Second)
	fmt.Printf("verif: property=%s engine=%s tier=%s VERIF_SEED=%d runs=%d workers=%d cap=%ds\n", prop, spec.EngineName, tier, seed, total, nw, capS)

	type wres struct {
		sum     *wmsg
		viol    *ReplayFile
		viol0   *ReplayFile
		known   []string
		lastIdx uint64
		started bool
		exit    int
		stderr  string
		err     error
	}
	results := make([]*wres, nw)
	var wg sync.WaitGroup
	for i := 0; i < nw; i++ {
		wg.Add(1)
		go func(i int) {
			defer wg.Done()
			r := &wres{}
			results[i] = r
			cmd := exec.Command(os.Args[0], "worker", "--prop", prop, "--tier", tier, "--seed", strconv.FormatUint(seed, 10),
				"--wid", strconv.Itoa(i), "--nw", strconv.Itoa(nw), "--total", strconv.Itoa(total),
				"--deadline", strconv.FormatInt(deadline.UnixMilli(), 10))
			cmd.Env = append(os.Environ(), "GORACE=halt_on_error=1 exitcode=66")
			se := &tailBuf{}
			cmd.Stderr = se
			so, _ := cmd.StdoutPipe()
			if err := cmd.Start(); err != nil {
				r.err = err
				return
			}
			sc := bufio.NewScanner(so)
			sc.Buffer(make([]byte, 1<<20), 1<<28)
			for sc.Scan() {
				m := &wmsg{}
				if err := json.Unmarshal(sc.Bytes(), m); err != nil {
					continue
				}
				switch m.T {
				case "start":
					r.lastIdx, r.started = m.Idx, true
				case "viol":
					r.viol = m.Replay
					r.viol0 = nil
				case "viol0":
					r.viol0 = m.Replay
				case "known":
					r.known = append(r.known, m.Known)
					r.viol0 = nil
				case "sum":
					r.sum = m
				}
			}
			err := cmd.Wait()
			r.stderr = se.String()
			if err != nil {
				if ee, ok := err.(*exec.ExitError); ok {
					r.exit = ee.ExitCode()
				} else {
					r.err = err
				}
			}
		}(i)
	}
	// watchdog: workers honour the deadline themselves; give them slack for a last run + shrinking, then kill.
	done := make(chan struct{})
	go func() { wg.Wait(); close(done) }()
	select {
	case <-done:
	case <-time.After(time.Until(deadline) + 8*time.Minute):
		fmt.Fprintln(os.Stderr, "WATCHDOG: workers did not finish; infrastructure failure")
		return 2
	}

	agg := &wmsg{Counters: map[string]int64{}}
	sigs := map[uint64]struct{}{}
	var viols []*ReplayFile
	knownCount := map[string]int{}
	infra := false
	type fatalRun struct {
		idx               uint64
		wid               int
		kind, sig, stderr string
	}
	var fatals []fatalRun
	for i, r := range results {
		if r.err != nil {
			fmt.Fprintf(os.Stderr, "worker %d: %v\n", i, r.err)
			infra = true
			continue
		}
		for _, k := range r.known {
			knownCount[k]++
		}
		if r.sum != nil {
			agg.Evals += r.sum.Evals
			agg.Steps += r.sum.Steps
			agg.SimMs += r.sum.SimMs
			agg.OOS += r.sum.OOS
			agg.AllSigs += r.sum.AllSigs
			for k, v := range r.sum.Counters {
				agg.Counters[k] += v
			}
			for _, h := range r.sum.Sigs {
				sigs[h] = struct{}{}
			}
			agg.Samples = append(agg.Samples, r.sum.Samples...)
		}
		if r.viol != nil {
			viols = append(viols, r.viol)
		}
		if r.viol == nil && r.viol0 != nil && (r.sum == nil || (r.exit != 0 && r.exit != 1)) {
			// the worker died while minimising a violation it had already found
			if kf, _ := LoadKnown(); kf != nil && kf.Match(prop, r.viol0.Violation) != nil {
				knownCount[kf.Match(prop, r.viol0.Violation).What]++
			} else {
				viols = append(viols, r.viol0)
			}
			continue
		}
		if r.sum == nil || (r.exit != 0 && r.exit != 1) {
			// the worker died: attribute a Go fatal diagnostic to the run it had announced
			k := fatalKind(r.stderr)
			if k == "" || !r.started {
				fmt.Fprintf(os.Stderr, "worker %d exited %d without a verdict:\n%s\n", i, r.exit, Trunc(r.stderr, 6000))
				infra = true
				continue
			}
			fsig := raceSig(r.stderr)
			if k == "fatal:hang" {
				fsig = hangSig(r.stderr)
				if spec.HangIsInfra {
					fmt.Fprintf(os.Stderr, "HARNESS: run %d of worker %d did not return (%s): with serialised real goroutines a hang is not attributed to the code under test\n%s\n", r.lastIdx, i, fsig, Trunc(r.stderr, 6000))
					infra = true
					continue
				}
			}
			fatals = append(fatals, fatalRun{idx: r.lastIdx, wid: i, kind: k, sig: k + " " + fsig, stderr: r.stderr})
		}
	}
	// Fatal runs: one representative per distinct diagnostic signature is reproduced in a fresh process and minimised
	// (each re-execution is a process start, so the budget is small); the others are only counted.
	sort.Slice(fatals, func(i, j int) bool { return fatals[i].idx < fatals[j].idx })
	seenFatal := map[string]bool{}
	for _, fr := range fatals {
		if seenFatal[fr.sig] {
			continue
		}
		seenFatal[fr.sig] = true
		w, s := liveDraws(NewLiveTape(seed, fr.idx), 16384)
		rf := &ReplayFile{Property: prop, Engine: spec.EngineName, Tier: tier, Seed: seed, RunIndex: fr.idx,
			W: w, S: s, OrigLen: [2]int{len(w), len(s)}, Fatal: Trunc(fr.stderr, 12000),
			Violation: &Violation{Rule: fr.kind, Msg: fr.sig, Sig: fr.sig}}
		rule0, _, _, _, err := execTape(prop, tier, w, s)
		if err == nil && rule0 != fr.kind && fr.kind == "fatal:data-race" {
			// The report may depend on process-wide state of the code under test (e.g. which entries of a lazily built
			// package-level table the earlier runs of that worker process had already initialised): re-execute the
			// worker's whole sequence up to this run in one fresh process.
			var hist []uint64
			for idx := uint64(fr.wid); idx < fr.idx; idx += uint64(len(results)) {
				hist = append(hist, idx)
			}
			if ruleH, vH, _, seH, errH := execTapeH(prop, tier, seed, hist, w, s); errH == nil && ruleH == fr.kind {
				rf.History = hist
				rf.Violation = vH
				rf.Fatal = Trunc(seH, 12000)
				rf.Note = "reproduces only after the runs listed in process_history have been executed in the same process (process-wide state of the code under test); not minimised"
				if kf, _ := LoadKnown(); kf != nil {
					if ke := kf.Match(prop, rf.Violation); ke != nil {
						knownCount[ke.What]++
						continue
					}
				}
				viols = append(viols, rf)
				continue
			}
		}
		if err != nil || rule0 != fr.kind {
			fmt.Fprintf(os.Stderr, "a worker died (%s) in run %d but the run does not reproduce in a fresh process (%v, got %q): infrastructure failure\n%s\n", fr.kind, fr.idx, err, rule0, Trunc(fr.stderr, 6000))
			infra = true
			continue
		}
		budget := 45 * time.Second
		if fr.kind == "fatal:hang" {
			budget = 100 * time.Second // every re-execution of a still hanging tape costs the (shortened) hang limit
			execHangS = "4"
		}
		bw, bs, n := Shrink(w, s, fr.kind, budget, 120, func(cw, cs []uint32) string {
			rl, _, _, _, _ := execTape(prop, tier, cw, cs)
			return rl
		})
		execHangS = ""
		if fr.kind == "fatal:hang" {
			if rl, _, _, _, _ := execTape(prop, tier, bw, bs); rl != fr.kind {
				bw, bs, n = w, s, 0 // the minimised tape does not hang under the normal limit: keep the original
			}
		}
		rf.W, rf.S, rf.ShrinkRuns = bw, bs, n
		if _, v, _, se2, _ := execTape(prop, tier, bw, bs); v != nil {
			rf.Violation = v
			rf.Fatal = Trunc(se2, 12000)
		}
		if kf, _ := LoadKnown(); kf != nil {
			if ke := kf.Match(prop, rf.Violation); ke != nil {
				knownCount[ke.What]++
				continue
			}
		}
		viols = append(viols, rf)
	}
	wall := time.Since(start).Seconds()

	// evidence
	cov := map[string]interface{}{
		"evaluations":         agg.Evals,
		"distinct_nontrivial": len(sigs),
		"distinct_cases_any":  agg.AllSigs,
		"rule":                spec.Rule,
		"samples":             agg.Samples,
		"simulated_steps":     agg.Steps,
		"runs_per_hour":       int64(float64(agg.Evals) / wall * 3600),
		"seeds":               []uint64{seed},
		"seed_derivation":     "each run r uses the tape seeded by fnv(VERIF_SEED, r, track); run indices 0..evaluations-1",
		"workers":             nw,
		"real_components":     spec.Real,
		"stub_components":     spec.Stub,
		"out_of_scope_runs":   agg.OOS,
	}
	if agg.SimMs > 0 {
		cov["simulated_time_ms"] = agg.SimMs
	}
	faults := map[string]int64{}
	reach := map[string]int64{}
	for k, v := range agg.Counters {
		if strings.HasPrefix(k, "fault.") {
			faults[strings.TrimPrefix(k, "fault.")] = v
		} else {
			reach[k] = v
		}
	}
	for _, k := range spec.FaultKinds {
		if _, ok := faults[k]; !ok {
			faults[k] = 0
		}
	}
	cov["faults_fired"] = faults
	cov["reach_probes"] = reach
	kl := []string{}
	for k, n := range knownCount {
		kl = append(kl, fmt.Sprintf("%s (x%d)", k, n))
	}
	sort.Strings(kl)
	cov["known_findings_matched"] = kl
	if len(agg.Samples) > 5 {
		cov["samples"] = agg.Samples[:5]
	}
	if len(agg.Samples) == 0 {
		cov["samples"] = []string{"(no non-trivial run rendered)"}
	}
	ev := &Evidence{PropertyID: prop, Tier: tier, Seed: int64(seed), Level: "exploration", Coverage: cov,
		Assumptions: spec.Assumptions, WallS: wall, Violations: len(viols)}
	evb, _ := json.MarshalIndent(ev, "", " ")
	evPath := filepath.Join(OutDir(), "evidence", prop+".json")
	os.MkdirAll(filepath.Dir(evPath), 0o755)
	if err := os.WriteFile(evPath, evb, 0o644); err != nil {
		fmt.Fprintln(os.Stderr, err)
		infra = true
	}

	fmt.Printf("verif: %d runs, %d distinct non-trivial cases, %d simulated steps, %.1fs wall, %d runs/hour\n",
		agg.Evals, len(sigs), agg.Steps, wall, int64(float64(agg.Evals)/wall*3600))
	fk := SortedKeys(faults)
	var fs []string
	for _, k := range fk {
		fs = append(fs, fmt.Sprintf("%s=%d", k, faults[k]))
	}
	fmt.Printf("verif: faults fired: %s\n", strings.Join(fs, " "))
	if agg.OOS > 0 {
		fmt.Printf("verif: %d runs discarded as out of scope (engine crash or budget overrun not attributable to this property; see stderr of workers)\n", agg.OOS)
	}
	for _, k := range kl {
		fmt.Printf("KNOWN-FINDING: property=%s %s\n", prop, k)
	}
	if len(viols) > 0 {
		sort.Slice(viols, func(i, j int) bool { return len(viols[i].W)+len(viols[i].S) < len(viols[j].W)+len(viols[j].S) })
		for _, rf := range viols {
			p, err := WriteReplay(rf)
			if err != nil {
				fmt.Fprintln(os.Stderr, err)
				return 2
			}
			fmt.Printf("violation: rule=%s %s\n", rf.Violation.Rule, rf.Violation.Msg)
			if rf.Violation.Detail != "" {
				fmt.Println(Trunc(rf.Violation.Detail, 8000))
			}
			fmt.Printf("VIOLATION property=%s replay=%s\n", prop, p)
		}
		return 1
	}
	if infra {
		return 2
	}
	if agg.Evals == 0 {
		fmt.Fprintln(os.Stderr, "no runs executed")
		return 2
	}
	fmt.Printf("OK property=%s held on all %d runs\n", prop, agg.Evals)
	return 0
}

func liveDraws(t *Tape, n int) (w, s []uint32) {
	// The live generator yields 53-bit values reduced mod n at draw time; a replay tape stores reduced values. To
	// reproduce a run whose recording was lost (the worker died), store raw 32-bit draws: Draw reduces them mod n
	// identically because live mode computes uint32(x>>11) % n as well.
	for i := 0; i < n; i++ {
		w = append(w, uint32(t.W.next64()>>11))
		s = append(s, uint32(t.S.next64()>>11))
	}
	return
}

// SelftestMain: determinism self-test. The same run indices are executed in three fresh worker processes under
// GOMAXPROCS 1, 4 and 16; every run's trace digest must be identical. A divergence is an infrastructure failure
// (exit 2), never a VIOLATION.
func SelftestMain(prop, tier string, seed uint64, n int) int {
	spec := Registry[prop]
	if spec == nil {
		fmt.Fprintf(os.Stderr, "unknown property %q\n", prop)
		return 2
	}
	var all []map[string]string
	for _, procs := range []string{"1", "4", "16"} {
		cmd := exec.Command(os.Args[0], "worker", "--prop", prop, "--tier", tier, "--seed", strconv.FormatUint(seed, 10),
			"--wid", "0", "--nw", "1", "--total", strconv.Itoa(n), "--digests")
		cmd.Env = append(os.Environ(), "GOMAXPROCS="+procs, "GORACE=halt_on_error=1 exitcode=66", "VERIF_OUT="+os.TempDir())
		var so, se bytes.Buffer
		cmd.Stdout, cmd.Stderr = &so, &se
		if err := cmd.Run(); err != nil {
			fmt.Fprintf(os.Stderr, "selftest worker (GOMAXPROCS=%s) failed: %v\n%s\n", procs, err, Trunc(se.String(), 3000))
			return 2
		}
		var sum *wmsg
		sc := bufio.NewScanner(&so)
		sc.Buffer(make([]byte, 1<<20), 1<<28)
		for sc.Scan() {
			m := &wmsg{}
			if json.Unmarshal(sc.Bytes(), m) == nil && m.T == "sum" {
				sum = m
			}
		}
		if sum == nil || len(sum.Digests) == 0 {
			fmt.Fprintf(os.Stderr, "selftest worker (GOMAXPROCS=%s) produced no digests\n", procs)
			return 2
		}
		all = append(all, sum.Digests)
	}
	bad := 0
	for k, d := range all[0] {
		for i := 1; i < len(all); i++ {
			if all[i][k] != d {
				fmt.Printf("NONDETERMINISTIC property=%s seed=%d run=%s digests %s vs %s\n", prop, seed, k, d, all[i][k])
				bad++
			}
		}
	}
	if bad > 0 || len(all[0]) != len(all[1]) || len(all[0]) != len(all[2]) {
		return 2
	}
	fmt.Printf("selftest: property=%s seed=%d: %d runs x 3 processes (GOMAXPROCS 1/4/16): all trace digests identical\n", prop, seed, len(all[0]))
	return 0
}
