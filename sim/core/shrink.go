package core

import "time"

// Shrink minimises a failing tape by delta debugging while the same violation rule persists.
// test(w,s) must re-run the engine in replay mode and return the rule that fired ("" if none).
// Passes: truncate suffixes, delete chunks, zero chunks, halve/decrement single entries.
func Shrink(w, s []uint32, rule string, budget time.Duration, maxRuns int, test func(w, s []uint32) string) (bw, bs []uint32, runs int) {
	deadline := time.Now().Add(budget)
	bw, bs = append([]uint32(nil), w...), append([]uint32(nil), s...)
	ok := func(cw, cs []uint32) bool {
		if runs >= maxRuns || time.Now().After(deadline) {
			return false
		}
		runs++
		return test(cw, cs) == rule
	}
	exhausted := func() bool { return runs >= maxRuns || time.Now().After(deadline) }

	trim := func(a []uint32) []uint32 { // trailing zeros are implicit
		for len(a) > 0 && a[len(a)-1] == 0 {
			a = a[:len(a)-1]
		}
		return a
	}
	bw, bs = trim(bw), trim(bs)

	// generic pass over one track; other track fixed
	pass := func(get func() []uint32, try func(c []uint32) bool) bool {
		improved := false
		// 1. truncate suffix (binary search for shortest prefix)
		for {
			a := get()
			if len(a) == 0 || exhausted() {
				break
			}
			cut := len(a) / 2
			done := true
			for cut >= 1 {
				c := trim(append([]uint32(nil), a[:len(a)-cut]...))
				if try(c) {
					improved, done = true, false
					break
				}
				cut /= 2
			}
			if done {
				break
			}
		}
		// 2. delete chunks
		for size := len(get()) / 2; size >= 1 && !exhausted(); size /= 2 {
			for i := 0; i+size <= len(get()) && !exhausted(); {
				a := get()
				c := append(append([]uint32(nil), a[:i]...), a[i+size:]...)
				if try(trim(c)) {
					improved = true
				} else {
					i += size
				}
			}
		}
		// 3. zero chunks
		for size := len(get()) / 2; size >= 1 && !exhausted(); size /= 2 {
			for i := 0; i+size <= len(get()) && !exhausted(); i += size {
				a := get()
				allZero := true
				for _, v := range a[i : i+size] {
					if v != 0 {
						allZero = false
					}
				}
				if allZero {
					continue
				}
				c := append([]uint32(nil), a...)
				for j := i; j < i+size; j++ {
					c[j] = 0
				}
				if try(trim(c)) {
					improved = true
				}
			}
		}
		// 4. reduce single entries
		for i := 0; i < len(get()) && !exhausted(); i++ {
			for !exhausted() {
				a := get()
				if i >= len(a) || a[i] == 0 {
					break
				}
				c := append([]uint32(nil), a...)
				c[i] = a[i] / 2
				if try(trim(c)) {
					improved = true
					continue
				}
				c = append([]uint32(nil), a...)
				c[i] = a[i] - 1
				if try(trim(c)) {
					improved = true
					continue
				}
				break
			}
		}
		return improved
	}

	for round := 0; round < 4 && !exhausted(); round++ {
		i1 := pass(func() []uint32 { return bs }, func(c []uint32) bool {
			if ok(bw, c) {
				bs = c
				return true
			}
			return false
		})
		i2 := pass(func() []uint32 { return bw }, func(c []uint32) bool {
			if ok(c, bs) {
				bw = c
				return true
			}
			return false
		})
		if !i1 && !i2 {
			break
		}
	}
	return
}
