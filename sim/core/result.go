package core

import (
	"crypto/sha256"
	"encoding/hex"
	"fmt"
	"sort"
	"strings"
)

// Violation describes a property violation found in one simulated run.
type Violation struct {
	Rule   string `json:"rule"`             // oracle rule that fired; the shrinker keeps this fixed
	Msg    string `json:"message"`          // one line, deterministic
	Detail string `json:"detail,omitempty"` // rendered scenario: scripts, fault plan, both logs
	Sig    string `json:"signature"`        // what known-finding entries are matched against
}

// Result is what an engine reports for one run.
type Result struct {
	Violation  *Violation
	OutOfScope string           // non-empty: the run was discarded for a reason that is not this property's to judge
	Sig        string           // distinctness signature of the case explored
	NonTrivial bool             // the case is non-trivial by the engine's stated rule
	Steps      int64            // simulated steps (VM ticks + probe calls)
	SimTimeMs  int64            // simulated clock covered (loopsim only)
	Counters   map[string]int64 // faults fired, reach probes, ...
	Sample     string           // rendering of the case (kept for a few runs per worker)
	Digest     string           // digest of the full event trace, for the determinism self-test
}

func (r *Result) Count(name string, n int64) {
	if r.Counters == nil {
		r.Counters = map[string]int64{}
	}
	r.Counters[name] += n
}

func (r *Result) Fail(rule, sig, msg string, detail string) {
	if r.Violation != nil {
		return // first one wins
	}
	r.Violation = &Violation{Rule: rule, Msg: msg, Detail: detail, Sig: sig}
}

// Engine is one simulator configuration deciding one property.
type Engine interface {
	// Run executes exactly one simulated run decided by the tape. It must be a pure function of the tape and the
	// goja tree: no wall clock, no ambient randomness, no map-iteration-order dependence.
	Run(t *Tape, want bool) *Result // want: render Sample/Detail even when there is no violation
}

// Spec registers a property check.
type Spec struct {
	Property    string
	EngineName  string
	New         func(tier string) Engine
	QuickRuns   int // total simulated runs for the quick tier (split over workers)
	ThoroughRun int // total for the thorough tier
	QuickCapS   int // wall-clock cap for the batch, seconds
	ThoroughCap int
	Race        bool // needs the -race binary
	Rule        string
	Real, Stub  []string
	Assumptions []string
	FaultKinds  []string // counters that are fault kinds (reported as faults_fired)
	// HangIsInfra: a run of this engine that does not return is reported as an infrastructure failure (exit 2), not as a
	// violation. For engines that serialise several real goroutines: a goroutine that blocks for real (or spins) while it
	// holds the baton is something the serialised execution cannot schedule, not evidence against the code under test.
	HangIsInfra bool
}

var Registry = map[string]*Spec{}

func Register(s *Spec) { Registry[s.Property] = s }

// Digest is a helper for engines: hash of trace lines.
func DigestLines(lines []string) string {
	h := sha256.New()
	for _, l := range lines {
		h.Write([]byte(l))
		h.Write([]byte{'\n'})
	}
	return hex.EncodeToString(h.Sum(nil))[:16]
}

func SortedKeys(m map[string]int64) []string {
	ks := make([]string, 0, len(m))
	for k := range m {
		ks = append(ks, k)
	}
	sort.Strings(ks)
	return ks
}

func Trunc(s string, n int) string {
	if len(s) <= n {
		return s
	}
	return s[:n] + fmt.Sprintf("...(+%d bytes)", len(s)-n)
}

func Indent(s string) string {
	return "    " + strings.ReplaceAll(strings.TrimRight(s, "\n"), "\n", "\n    ")
}
