// Package core holds the parts of the simulator shared by every engine: the choice tape from which every
// decision of a run is drawn, run results, tape-level shrinking, replay files, the multi-process orchestrator
// and the evidence writer.
package core

import (
	"encoding/binary"
	"hash/fnv"
)

// Track is one stream of choices. In live mode every draw comes from a splitmix64 generator and is recorded;
// in replay mode draws are read back from a recorded array and, once that is exhausted, are 0.
// By convention 0 is always the simplest / benign choice, so a truncated or zeroed tape is a valid, simpler run.
type Track struct {
	state  uint64
	live   bool
	Rec    []uint32
	replay []uint32
	pos    int
}

func (t *Track) next64() uint64 {
	t.state += 0x9e3779b97f4a7c15
	z := t.state
	z = (z ^ (z >> 30)) * 0xbf58476d1ce4e5b9
	z = (z ^ (z >> 27)) * 0x94d049bb133111eb
	return z ^ (z >> 31)
}

// Draw returns a value in [0,n). n==0 is treated as 1.
func (t *Track) Draw(n int) int {
	if n <= 1 {
		// still consume a slot so that tape positions do not depend on n
		n = 1
	}
	var v uint32
	if t.live {
		v = uint32(t.next64()>>11) % uint32(n)
	} else if t.pos < len(t.replay) {
		v = t.replay[t.pos] % uint32(n)
	}
	t.pos++
	t.Rec = append(t.Rec, v)
	return int(v)
}

// Chance returns true with probability num/den (false is the benign choice).
func (t *Track) Chance(num, den int) bool {
	return t.Draw(den) >= den-num
}

// Bias draws in [0,n) but returns 0 with extra probability: used where 0 is "nothing happens".
func (t *Track) Pos() int { return t.pos }

// Tape is the pair of tracks that decides a run: W (workload: what programs, histories and clients look like)
// and S (schedule: which task runs next, slice lengths, delays, fault kinds and positions).
type Tape struct {
	Seed uint64
	Idx  uint64
	W, S Track
}

func mix(a, b, c uint64) uint64 {
	h := fnv.New64a()
	var buf [24]byte
	binary.LittleEndian.PutUint64(buf[0:], a)
	binary.LittleEndian.PutUint64(buf[8:], b)
	binary.LittleEndian.PutUint64(buf[16:], c)
	h.Write(buf[:])
	return h.Sum64()
}

// NewLiveTape derives both tracks from (seed, run index).
func NewLiveTape(seed, idx uint64) *Tape {
	return &Tape{
		Seed: seed, Idx: idx,
		W: Track{state: mix(seed, idx, 1), live: true},
		S: Track{state: mix(seed, idx, 2), live: true},
	}
}

// NewReplayTape replays recorded tracks.
func NewReplayTape(w, s []uint32) *Tape {
	return &Tape{
		W: Track{replay: w},
		S: Track{replay: s},
	}
}

// Recorded returns copies of what was drawn so far.
func (t *Tape) Recorded() (w, s []uint32) {
	return append([]uint32(nil), t.W.Rec...), append([]uint32(nil), t.S.Rec...)
}

// Fork returns a tape that replays the same workload track but a different schedule track: used for the
// counterfactual run ("same workload, no faults") and for fault placement after a counterfactual run.
func ReplayW(w []uint32, s []uint32) *Tape { return NewReplayTape(w, s) }
