package engines

import (
	"fmt"
	"math"
	"math/big"
	"strconv"
	"strings"

	"github.com/dop251/goja"

	"verif/sim/core"
)

// Operation kinds of the bufsim workload. Kind 0 must be the simplest one (a shrunk tape is all zeroes).
const (
	boGet = iota
	boPut
	boProps
	boFill
	boSetArr
	boSetTA
	boCopyWithin
	boSlice
	boSubarray
	boSort
	boReverse
	boIndexOf
	boJoin
	boAt
	boIter
	boWith
	boToReversed
	boToSorted
	boNewFromBuf
	boNewFromTA
	boNewLen
	boNewArr
	boFrom
	boOf
	boNewDV
	boDVGet
	boDVSet
	boBufSlice
	boBufLen
	boHostDetach
	boHostWrite
	boKey
	nBufOps
)

var boName = [...]string{"get", "put", "props", "fill", "set(array)", "set(typedArray)", "copyWithin", "slice", "subarray", "sort", "reverse",
	"indexOf", "join", "at", "iter", "with", "toReversed", "toSorted", "new(buffer)", "new(typedArray)", "new(length)", "new(array)", "from", "of",
	"new DataView", "DataView.get", "DataView.set", "ArrayBuffer.slice", "ArrayBuffer.byteLength", "host-detach", "host-write", "key"}

// weights of the op kinds (index = kind)
var boWeight = [...]int{5, 6, 2, 7, 6, 7, 7, 8, 5, 4, 2, 3, 2, 2, 7, 2, 1, 2, 5, 3, 1, 2, 3, 2, 2, 5, 6, 2, 1, 1, 2, 12}

const (
	itMap = iota
	itFilter
	itForEach
	itReduce
	itReduceRight
	itFind
	itFindIndex
	itFindLast
	itFindLastIndex
	itSome
	itEvery
	nIter
)

var itName = [...]string{"map", "filter", "forEach", "reduce", "reduceRight", "find", "findIndex", "findLast", "findLastIndex", "some", "every"}

// probe site = step*32 + slot
const (
	slArg0 = iota
	slArg1
	slArg2
	slVal
	slCb
	slCmp
	slSpecies
	slBufSpecies
	slElem // 8..31
)

func slotPhase(slot int) string {
	switch {
	case slot <= slArg2:
		return "arg" + strconv.Itoa(slot)
	case slot == slVal:
		return "val"
	case slot == slCb:
		return "cb"
	case slot == slCmp:
		return "cmp"
	case slot == slSpecies || slot == slBufSpecies:
		return "species"
	}
	return "elem"
}

type iarg struct {
	omit  bool
	f     float64
	probe bool
}

type varg struct {
	v     jv
	probe bool
}

type bop struct {
	step     int
	kind     int
	sub      int
	v, v2    int // receiver / source view
	b        int // buffer
	et       int // element type of a constructor op
	a        [3]iarg
	val      varg
	vals     []varg
	hasVal   bool
	srcArr   bool // from(): source is an array literal
	cbB      int
	cbM      int
	le       int     // 0 omitted, 1 true, 2 false
	sep      int     // join: 0 omitted, 1 ";"
	mut      mutSpec // side effect of the callback (see bufsim_mut.go)
	keyNum   float64 // boKey: the key, a Number ...
	keyStr   string  // ... or a String
	keyIsStr bool
	ctorHk   bool
	res      int // slot of the result view (-1: not registered)
	resBuf   int // slot of the result buffer (-1: not registered)
	resHk    bool
	host     []byte
	sigEt    int
	prog     *goja.Program
	src      string
}

func (o *bop) site(slot int) int { return o.step*32 + slot }

type expect struct {
	outcomes []string // acceptable outcomes: "=<value>" / "!<ErrorName>"; nil = not asserted
	cb       []string // expected callback-value log; nil = not asserted
	newView  *mview
	newBuf   *mbuf
	skip     bool
}

const (
	maxModelViews = 14
	maxModelBufs  = 7
)

type bmodel struct {
	bufs  []*mbuf
	views []*mview
	cnt   map[string]int64
	alias *aliasSpec // what the species constructor hands out in this step instead of a fresh array (nil: fresh)
}

// aliasSpec describes the array a faulted species constructor returned: a view over an existing buffer (buf != nil)
// or a fresh array of a different length (buf == nil).
type aliasSpec struct {
	buf    *mbuf
	off, n int
}

type bufSnap struct {
	data     []byte
	detached bool
	nan      []brange
}

func (m *bmodel) snapshot() []bufSnap {
	out := make([]bufSnap, len(m.bufs))
	for i, b := range m.bufs {
		out[i] = bufSnap{data: append([]byte(nil), b.data...), detached: b.detached, nan: append([]brange(nil), b.nanCells...)}
	}
	return out
}

func (m *bmodel) restore(s []bufSnap) {
	for i, b := range m.bufs {
		if i < len(s) {
			b.data = append(b.data[:0], s[i].data...)
			b.detached = s[i].detached
			b.nanCells = append(b.nanCells[:0], s[i].nan...)
		}
		b.dirty = b.dirty[:0]
	}
}

func (m *bmodel) count(k string) {
	if m.cnt != nil {
		m.cnt[k]++
	}
}

func (m *bmodel) taViews(live bool) []int {
	var out []int
	for i, v := range m.views {
		if !v.dv && !v.absent && (!live || v.live()) {
			out = append(out, i)
		}
	}
	return out
}

func (m *bmodel) dvViews() []int {
	var out []int
	for i, v := range m.views {
		if v.dv && !v.absent {
			out = append(out, i)
		}
	}
	return out
}

// ---- value tables ---------------------------------------------------------------------------------------------

var bufNums = []float64{1, 0, -1, 2, 127, 128, 129, 255, 256, 254.5, 255.5, 0.5, 1.5, 2.5, -0.5, -1.5, -128, -129, 32767, 32768, 65535, 65536,
	-32768, -32769, 2147483647, 2147483648, 4294967295, 4294967296, 4294967297, -2147483648, -2147483649, 9007199254740991, 1e21, -1e21,
	3.14159, 16777217, 1e-40, 3.5e38, 1e39, math.Copysign(0, -1), math.NaN(), math.Inf(1), math.Inf(-1), 0.1, 1e-320, 7, 100, 200, 300, 1.0000001}

var bufBigs = func() []*big.Int {
	var out []*big.Int
	for _, s := range []string{"1", "0", "-1", "127", "128", "255", "9223372036854775807", "9223372036854775808", "18446744073709551615",
		"18446744073709551616", "18446744073709551621", "-9223372036854775808", "-9223372036854775809", "12345678901234567890", "-7", "4294967296"} {
		b, _ := new(big.Int).SetString(s, 10)
		out = append(out, b)
	}
	return out
}()

// offsets whose sum with a length overflows int64 / int32 arithmetic in a careless range check
var bufHugeOffsets = []float64{math.Inf(1), 1e300, 9223372036854775808, 9223372036854775807, 9223372036854774784, 4611686018427387904, 9007199254740992, 4294967296, 2147483648, 2147483647}

// genVal draws a value for an element of type et: mostly of the right numeric kind, occasionally of the wrong one.
func genVal(W *core.Track, et int) varg {
	wrong := W.Draw(20) == 19
	big := etBig(et) != wrong
	var v jv
	if big {
		v = jBig(bufBigs[W.Draw(len(bufBigs))])
	} else {
		v = jNum(bufNums[W.Draw(len(bufNums))])
	}
	return varg{v: v, probe: W.Draw(3) == 2}
}

// genIdx draws an index-like argument around [0,n].
func genIdx(W *core.Track, n int, canOmit bool) iarg {
	var a iarg
	switch c := W.Draw(12); {
	case c == 0:
		if canOmit {
			a.omit = true
		} else {
			a.f = 0
		}
	case c <= 5:
		a.f = float64(W.Draw(n + 2))
	case c <= 7:
		a.f = -float64(W.Draw(n + 3))
	case c == 8:
		a.f = float64(W.Draw(n+1)) + 0.5
	case c == 9:
		a.f = []float64{math.NaN(), math.Inf(1), math.Inf(-1), math.Copysign(0, -1)}[W.Draw(4)]
	case c == 10:
		a.f = []float64{2147483648, 4294967297, -4294967297, 9007199254740991}[W.Draw(4)]
	default:
		a.f = float64(n)
	}
	if !a.omit {
		a.probe = W.Draw(2) == 1
	}
	return a
}

func (o *bop) argSrc(k int) string {
	a := o.a[k]
	if a.omit {
		return "undefined"
	}
	s := jNum(a.f).src()
	if a.probe {
		return fmt.Sprintf("O(%d,%s)", o.site(k), s)
	}
	return s
}

// args renders a[from..to] dropping omitted trailing arguments.
func (o *bop) args(from, to int) []string {
	last := from - 1
	for k := from; k <= to; k++ {
		if !o.a[k].omit {
			last = k
		}
	}
	var out []string
	for k := from; k <= last; k++ {
		out = append(out, o.argSrc(k))
	}
	return out
}

func (o *bop) valSrc(v varg, slot int) string {
	if v.probe {
		return fmt.Sprintf("O(%d,%s)", o.site(slot), v.v.src())
	}
	return v.v.src()
}

func (o *bop) valsSrc() string {
	var parts []string
	for i, v := range o.vals {
		parts = append(parts, o.valSrc(v, slElem+i))
	}
	return strings.Join(parts, ",")
}

func (a iarg) val(dflt float64) float64 {
	if a.omit {
		return dflt
	}
	return a.f
}

// ---- generation -----------------------------------------------------------------------------------------------

func (m *bmodel) genOp(W *core.Track, step int) *bop {
	o := &bop{step: step, res: -1, resBuf: -1}
	tot := 0
	for _, w := range boWeight {
		tot += w
	}
	r := W.Draw(tot)
	for k, w := range boWeight {
		if r < w {
			o.kind = k
			break
		}
		r -= w
	}
	tas := m.taViews(false)
	dvs := m.dvViews()
	if len(tas) == 0 { // cannot happen: there is always an initial typed array
		o.kind = boBufLen
	}
	pickTA := func() int {
		i := tas[W.Draw(len(tas))]
		if m.views[i].length() == 0 && W.Draw(4) != 0 { // prefer non-empty receivers
			i = tas[W.Draw(len(tas))]
		}
		return i
	}
	// kinds that need something that may not exist fall back to creating it
	if (o.kind == boDVGet || o.kind == boDVSet) && len(dvs) == 0 {
		o.kind = boNewDV
	}
	newViewSlot := func() {
		if len(m.views) < maxModelViews {
			o.res = len(m.views)
			o.resHk = W.Draw(3) == 2
		}
	}
	newBufSlot := func() {
		if len(m.bufs) < maxModelBufs {
			o.resBuf = len(m.bufs)
		}
	}
	genVals := func(et, max int) {
		n := W.Draw(max + 1)
		for i := 0; i < n; i++ {
			o.vals = append(o.vals, genVal(W, et))
		}
	}
	switch o.kind {
	case boGet, boAt:
		o.v = pickTA()
		n := m.views[o.v].n
		o.a[0] = iarg{f: float64(W.Draw(n+3) - 1)}
		if o.kind == boAt {
			o.a[0] = genIdx(W, n, false)
		}
	case boPut:
		o.v = pickTA()
		o.a[0] = iarg{f: float64(W.Draw(m.views[o.v].n+3) - 1)}
		o.val = genVal(W, m.views[o.v].et)
	case boProps:
		o.v = W.Draw(len(m.views))
		if m.views[o.v].absent {
			o.v = pickTA()
		}
	case boFill:
		o.v = pickTA()
		n := m.views[o.v].n
		o.val = genVal(W, m.views[o.v].et)
		o.a[0], o.a[1] = genIdx(W, n, true), genIdx(W, n, true)
	case boSetArr:
		o.v = pickTA()
		n := m.views[o.v].n
		genVals(m.views[o.v].et, min(n+1, 6))
		o.a[0] = iarg{omit: true}
		if W.Draw(2) == 1 {
			o.a[0] = iarg{f: float64(W.Draw(n+2) - W.Draw(2)), probe: W.Draw(2) == 1}
			if W.Draw(8) == 7 {
				o.a[0].f = bufHugeOffsets[W.Draw(len(bufHugeOffsets))]
			}
		}
	case boSetTA:
		o.v, o.v2 = pickTA(), pickTA()
		n := m.views[o.v].n
		o.a[0] = iarg{omit: true}
		if W.Draw(2) == 1 {
			o.a[0] = iarg{f: float64(W.Draw(n+2) - W.Draw(2)), probe: W.Draw(2) == 1}
			if W.Draw(8) == 7 {
				o.a[0].f = bufHugeOffsets[W.Draw(len(bufHugeOffsets))]
			}
		}
	case boCopyWithin:
		o.v = pickTA()
		n := m.views[o.v].n
		o.a[0], o.a[1], o.a[2] = genIdx(W, n, false), genIdx(W, n, false), genIdx(W, n, true)
	case boSlice, boSubarray:
		o.v = pickTA()
		n := m.views[o.v].n
		o.a[0], o.a[1] = genIdx(W, n, true), genIdx(W, n, true)
		newViewSlot()
		if o.kind == boSlice {
			newBufSlot()
		}
	case boSort, boToSorted:
		o.v = pickTA()
		o.sub = W.Draw(3)
		if o.sub > 0 {
			o.mut = m.genMut(W, o.v, true)
		}
		if o.kind == boToSorted {
			newViewSlot()
			newBufSlot()
		}
	case boReverse:
		o.v = pickTA()
	case boToReversed:
		o.v = pickTA()
		newViewSlot()
		newBufSlot()
	case boIndexOf:
		o.v = pickTA()
		o.sub = W.Draw(3)
		v := m.views[o.v]
		if v.length() > 0 && W.Draw(3) != 2 {
			o.val = varg{v: v.get(W.Draw(v.length()))}
		} else {
			o.val = genVal(W, v.et)
			o.val.probe = false
		}
		o.a[0] = genIdx(W, v.n, true)
	case boJoin:
		o.v = pickTA()
		o.sep = W.Draw(2)
	case boIter:
		o.v = pickTA()
		o.sub = W.Draw(nIter)
		o.cbB, o.cbM = W.Draw(4), 1+W.Draw(4)
		o.mut = m.genMut(W, o.v, false)
		switch o.sub {
		case itMap:
			o.cbM = W.Draw(3) // 0 identity, 1 constant, 2 negate
			if o.cbM == 1 {
				o.val = genVal(W, m.views[o.v].et)
				o.val.probe = false
			}
			newViewSlot()
			newBufSlot()
		case itFilter:
			newViewSlot()
			newBufSlot()
		case itReduce, itReduceRight:
			if o.hasVal = W.Draw(2) == 1; o.hasVal {
				o.val = genVal(W, m.views[o.v].et)
				o.val.probe = false
			}
		}
	case boWith:
		o.v = pickTA()
		n := m.views[o.v].n
		o.a[0] = iarg{f: float64(W.Draw(2*n+5) - n - 2), probe: W.Draw(2) == 1}
		o.val = genVal(W, m.views[o.v].et)
		newViewSlot()
		newBufSlot()
	case boNewFromBuf:
		o.b = W.Draw(len(m.bufs))
		o.et = W.Draw(nElemTypes)
		bl, sz := len(m.bufs[o.b].data), etSize[o.et]
		maxE := bl / sz
		oe := 0
		if W.Draw(3) != 0 {
			oe = W.Draw(maxE + 1)
		}
		o.a[0] = iarg{f: float64(oe * sz), probe: W.Draw(3) == 2}
		switch W.Draw(8) {
		case 0:
			o.a[0].omit, o.a[0].probe = oe == 0, o.a[0].probe && oe != 0
			o.a[1].omit = true
		case 1:
			o.a[0].f += 1 // misaligned for multi-byte types
			o.a[1] = iarg{f: 1}
		case 2:
			o.a[1] = iarg{f: float64(maxE - oe + 1), probe: W.Draw(2) == 1} // one element too many
		case 3:
			o.a[1] = iarg{f: 0}
		case 4:
			o.a[1] = iarg{f: float64(W.Draw(maxE - oe + 1)), probe: W.Draw(2) == 1}
		default:
			o.a[1] = iarg{f: float64(maxE - oe), probe: W.Draw(2) == 1} // ends exactly at the last whole element
		}
		newViewSlot()
	case boNewFromTA:
		o.v2 = pickTA()
		o.et = W.Draw(nElemTypes)
		if W.Draw(4) != 0 && etBig(o.et) != etBig(m.views[o.v2].et) {
			o.et = m.views[o.v2].et
		}
		newViewSlot()
		newBufSlot()
	case boNewLen:
		o.et = W.Draw(nElemTypes)
		o.a[0] = iarg{f: float64(W.Draw(12) - 1)} // never a probe object: an object argument is an array-like, not a length
		newViewSlot()
		newBufSlot()
	case boNewArr, boOf:
		o.et = W.Draw(nElemTypes)
		genVals(o.et, 6)
		o.ctorHk = o.kind == boOf && W.Draw(3) == 2
		newViewSlot()
		newBufSlot()
	case boFrom:
		o.et = W.Draw(nElemTypes)
		if o.srcArr = W.Draw(2) == 1; o.srcArr {
			genVals(o.et, 6)
		} else {
			o.v2 = pickTA()
			if W.Draw(4) != 0 && etBig(o.et) != etBig(m.views[o.v2].et) {
				o.et = m.views[o.v2].et
			}
		}
		o.sub = W.Draw(3) // 0 no map fn, 1 identity, 2 negate
		if !o.srcArr && o.sub > 0 {
			o.mut = m.genMut(W, o.v2, false)
		}
		o.ctorHk = W.Draw(3) == 2
		newViewSlot()
		newBufSlot()
	case boNewDV:
		o.b = W.Draw(len(m.bufs))
		bl := len(m.bufs[o.b].data)
		off := 0
		if W.Draw(2) == 1 {
			off = W.Draw(bl + 2)
		}
		o.a[0] = iarg{f: float64(off), probe: W.Draw(3) == 2}
		switch W.Draw(4) {
		case 0:
			o.a[1].omit = true
			if off == 0 {
				o.a[0] = iarg{omit: true}
			}
		case 1:
			o.a[1] = iarg{f: float64(max(bl-off, 0) + 1), probe: W.Draw(2) == 1}
		default:
			o.a[1] = iarg{f: float64(W.Draw(max(bl-off, 0) + 1)), probe: W.Draw(2) == 1}
		}
		newViewSlot()
	case boDVGet, boDVSet:
		o.v = dvs[W.Draw(len(dvs))]
		o.et = W.Draw(nElemTypes - 1)
		if o.et >= etU8C {
			o.et++ // there is no Uint8Clamped accessor
		}
		n, sz := m.views[o.v].n, etSize[o.et]
		switch W.Draw(6) {
		case 0:
			o.a[0] = iarg{f: 0}
		case 1:
			o.a[0] = iarg{f: float64(n - sz)} // last legal offset (when >= 0)
		case 2:
			o.a[0] = iarg{f: float64(n - sz + 1)} // first illegal offset
		case 3:
			o.a[0] = iarg{f: -1}
		default:
			o.a[0] = iarg{f: float64(W.Draw(n + 1))}
		}
		o.a[0].probe = W.Draw(3) == 2
		o.le = W.Draw(3)
		if o.kind == boDVSet {
			o.val = genVal(W, o.et)
		}
	case boBufSlice:
		o.b = W.Draw(len(m.bufs))
		bl := len(m.bufs[o.b].data)
		o.a[0], o.a[1] = genIdx(W, bl, true), genIdx(W, bl, true)
		newBufSlot()
	case boBufLen, boHostDetach:
		o.b = W.Draw(len(m.bufs))
	case boHostWrite:
		o.b = W.Draw(len(m.bufs))
		bl := len(m.bufs[o.b].data)
		n := 1 + W.Draw(8)
		if n > bl {
			n = bl
		}
		o.a[0] = iarg{f: float64(W.Draw(bl - n + 1))}
		patterns := [][]byte{{0xff, 0xff, 0xff, 0xff, 0xff, 0xff, 0xff, 0xff}, {0, 0, 0, 0, 0, 0, 0xf8, 0x7f}, {0, 0, 0, 0, 0, 0, 0, 0x80},
			{0x01, 0, 0xc0, 0x7f, 0x01, 0, 0xa0, 0x7f}, {0x80, 0x7f, 0xff, 0x80, 0, 0x80, 0xff, 0x7f}}
		p := patterns[W.Draw(len(patterns))]
		rot := W.Draw(8)
		for i := 0; i < n; i++ {
			o.host = append(o.host, p[(i+rot)%8])
		}
	case boKey:
		m.genKeyOp(W, o, pickTA())
	}
	return o
}

// ---- rendering ------------------------------------------------------------------------------------------------

func vname(i int) string { return "V" + strconv.Itoa(i) }
func bname(i int) string { return "B" + strconv.Itoa(i) }

func (o *bop) cmpSrc() string {
	switch o.sub {
	case 1, 2:
		d, f := 3-2*o.sub, ""
		if o.mut.kind == muDetach {
			f = fmt.Sprintf(",function(){ DT(%d) }", o.mut.b)
		}
		return fmt.Sprintf("CMP(%d,%d%s)", o.site(slCmp), d, f)
	}
	return ""
}

func (o *bop) ctorSrc() string {
	if o.ctorHk {
		return fmt.Sprintf("mkCtor(%d,%d)", o.site(slSpecies), o.et)
	}
	return etName[o.et] + "Array"
}

// render produces the JS expression of the step ("" for host actions).
func (o *bop) render(m *bmodel) string {
	V, V2, B := vname(o.v), vname(o.v2), bname(o.b)
	call := func(recv, meth string, args ...string) string {
		return recv + "." + meth + "(" + strings.Join(args, ",") + ")"
	}
	switch o.kind {
	case boGet:
		return fmt.Sprintf("%s[%d]", V, int(o.a[0].f))
	case boPut:
		return fmt.Sprintf("(%s[%d] = %s, 0)", V, int(o.a[0].f), o.valSrc(o.val, slVal))
	case boProps:
		if m.views[o.v].dv {
			return fmt.Sprintf("%s.byteOffset+'/'+%s.byteLength", V, V)
		}
		return fmt.Sprintf("%s.length+'/'+%s.byteOffset+'/'+%s.byteLength", V, V, V)
	case boFill:
		return call(V, "fill", append([]string{o.valSrc(o.val, slVal)}, o.args(0, 1)...)...)
	case boSetArr:
		return call(V, "set", append([]string{"[" + o.valsSrc() + "]"}, o.args(0, 0)...)...)
	case boSetTA:
		return call(V, "set", append([]string{V2}, o.args(0, 0)...)...)
	case boCopyWithin:
		return call(V, "copyWithin", o.args(0, 2)...)
	case boSlice:
		return call(V, "slice", o.args(0, 1)...)
	case boSubarray:
		return call(V, "subarray", o.args(0, 1)...)
	case boSort:
		return call(V, "sort", o.cmpSrc())
	case boToSorted:
		return call(V, "toSorted", o.cmpSrc())
	case boReverse:
		return call(V, "reverse")
	case boToReversed:
		return call(V, "toReversed")
	case boIndexOf:
		return call(V, [...]string{"indexOf", "lastIndexOf", "includes"}[o.sub], append([]string{o.val.v.src()}, o.args(0, 0)...)...)
	case boJoin:
		if o.sep == 1 {
			return call(V, "join", "';'")
		}
		return call(V, "join")
	case boAt:
		return call(V, "at", o.argSrc(0))
	case boWith:
		return call(V, "with", o.argSrc(0), o.valSrc(o.val, slVal))
	case boIter:
		s := o.site(slCb)
		pred := fmt.Sprintf("function(x,i){ var r = PV(%d,(i+%d)%%%d==0?1:0,x);%s return r }", s, o.cbB, o.cbM, o.mutSrc())
		switch o.sub {
		case itMap:
			ret := "x"
			if o.cbM == 1 {
				ret = o.val.v.src()
			} else if o.cbM == 2 {
				ret = "-x"
			}
			return call(V, "map", fmt.Sprintf("function(x,i){ PV(%d,i,x);%s return %s }", s, o.mutSrc(), ret))
		case itForEach:
			return call(V, "forEach", fmt.Sprintf("function(x,i){ PV(%d,i,x);%s }", s, o.mutSrc()))
		case itReduce, itReduceRight:
			args := []string{fmt.Sprintf("function(a,x,i){ PV(%d,i,x);%s return x }", s, o.mutSrc())}
			if o.hasVal {
				args = append(args, o.val.v.src())
			}
			return call(V, itName[o.sub], args...)
		}
		return call(V, itName[o.sub], pred)
	case boNewFromBuf:
		return "new " + etName[o.et] + "Array(" + strings.Join(append([]string{B}, o.args(0, 1)...), ",") + ")"
	case boNewFromTA:
		return "new " + etName[o.et] + "Array(" + V2 + ")"
	case boNewLen:
		return "new " + etName[o.et] + "Array(" + o.argSrc(0) + ")"
	case boNewArr:
		return "new " + etName[o.et] + "Array([" + o.valsSrc() + "])"
	case boOf:
		if o.ctorHk {
			if len(o.vals) == 0 {
				return etName[o.et] + "Array.of.call(" + o.ctorSrc() + ")"
			}
			return etName[o.et] + "Array.of.call(" + o.ctorSrc() + "," + o.valsSrc() + ")"
		}
		return etName[o.et] + "Array.of(" + o.valsSrc() + ")"
	case boFrom:
		src := V2
		if o.srcArr {
			src = "[" + o.valsSrc() + "]"
		}
		args := []string{src}
		if o.sub > 0 {
			ret := "x"
			if o.sub == 2 {
				ret = "-x"
			}
			args = append(args, fmt.Sprintf("function(x,i){ PV(%d,i,x);%s return %s }", o.site(slCb), o.mutSrc(), ret))
		}
		if o.ctorHk {
			return etName[o.et] + "Array.from.call(" + strings.Join(append([]string{o.ctorSrc()}, args...), ",") + ")"
		}
		return etName[o.et] + "Array.from(" + strings.Join(args, ",") + ")"
	case boNewDV:
		return "new DataView(" + strings.Join(append([]string{B}, o.args(0, 1)...), ",") + ")"
	case boDVGet:
		args := []string{o.argSrc(0)}
		if o.le > 0 {
			args = append(args, strconv.FormatBool(o.le == 1))
		}
		return call(V, "get"+etName[o.et], args...)
	case boDVSet:
		args := []string{o.argSrc(0), o.valSrc(o.val, slVal)}
		if o.le > 0 {
			args = append(args, strconv.FormatBool(o.le == 1))
		}
		return call(V, "set"+etName[o.et], args...)
	case boBufSlice:
		return call(B, "slice", o.args(0, 1)...)
	case boBufLen:
		return B + ".byteLength"
	case boKey:
		return o.renderKey()
	}
	return ""
}

func (o *bop) describe(m *bmodel) string {
	switch o.kind {
	case boHostDetach:
		return fmt.Sprintf("HOST: %s.Detach()", bname(o.b))
	case boHostWrite:
		return fmt.Sprintf("HOST: write % x into %s at %d", o.host, bname(o.b), int(o.a[0].f))
	}
	s := o.src
	if o.res >= 0 {
		s = vname(o.res) + " = " + s
		if o.resHk {
			s += "   [species hook installed]"
		}
	} else if o.resBuf >= 0 && o.kind == boBufSlice {
		s = bname(o.resBuf) + " = " + s
	}
	return s
}

// uses lists the views and buffers a step needs to exist.
func (o *bop) uses(m *bmodel) (views []int, bufs []int) {
	switch o.kind {
	case boNewFromBuf, boNewDV, boBufSlice, boBufLen, boHostDetach, boHostWrite:
		bufs = append(bufs, o.b)
	case boNewLen, boNewArr, boOf:
	case boNewFromTA:
		views = append(views, o.v2)
	case boFrom:
		if !o.srcArr {
			views = append(views, o.v2)
		}
	case boSetTA:
		views = append(views, o.v, o.v2)
	default:
		views = append(views, o.v)
	}
	if o.mut.kind == muAliasView || o.mut.kind == muDataView {
		views = append(views, o.mut.w) // written by the callback
	}
	return
}

// opBufs: the buffers an operation works on, receiver first (targets of the detach / retarget faults).
func (o *bop) opBufs(m *bmodel) []*mbuf {
	vs, bs := o.uses(m)
	var out []*mbuf
	for _, v := range vs {
		out = append(out, m.views[v].buf)
	}
	for _, b := range bs {
		out = append(out, m.bufs[b])
	}
	return out
}

func (o *bop) elemType(m *bmodel) int {
	switch o.kind {
	case boNewFromBuf, boNewFromTA, boNewLen, boNewArr, boFrom, boOf, boDVGet, boDVSet:
		return o.et
	case boNewDV, boBufSlice, boBufLen, boHostDetach, boHostWrite:
		return -1
	}
	return m.views[o.v].et
}

func (o *bop) kindName() string {
	switch o.kind {
	case boIter:
		return itName[o.sub]
	case boIndexOf:
		return [...]string{"indexOf", "lastIndexOf", "includes"}[o.sub]
	case boSort, boToSorted:
		if o.sub > 0 {
			return boName[o.kind] + "(cmp)"
		}
	case boKey:
		return keySigName(o)
	}
	return boName[o.kind]
}
