package engines

import (
	"fmt"
	"os"

	"github.com/dop251/goja"
)

// The transfer model of chainsim (C14). It is written from the property text and goja's documentation, not from goja's
// code: it walks a frame chain from the innermost frame outwards carrying the "current abrupt state" and says, a few
// lines per frame kind, what every script catch site, every native frame and finally the host must observe.

// ---- frame kinds -------------------------------------------------------------------------------------------------

const (
	cjPlain        = iota // function fK(){ return next(); }
	cjRethrow             // try { return next(); } catch (e) { C(K,e); throw e; }
	cjFinally             // try { ... } finally { F(K,ok); }
	cjBoth                // try { ... } catch (e) { C(K,e); throw e; } finally { F(K,ok); }
	cjSwallow             // catch (e) { C(K,e); return "swallowed-K"; }
	cjWrap                // catch (e) { C(K,e); throw new Error("wrap-K", {cause: e}); }
	cjGetter              // next() is called inside a getter
	cjProxy               // next() is called inside a JS Proxy get trap
	cjGen                 // next() is called inside a generator body (sel: for-of / .next() / spread)
	cjJob                 // next() is called in a promise job / executor / async function (sel), with .catch(e => C(K,e))
	cjEval                // eval("next()")
	cjClass               // new (class { constructor(){ this.v = next(); } })
	cjHostIter            // next() is called from the body of a for-of / an array destructuring default over a HOST-implemented iterator
	cjIterBuiltin         // next() is called from the per-element callback of an iterate()-based built-in (Array.from mapper, Set subclass add(), Promise.all resolve) over a host-implemented iterator / a generator
	cnFunc                // func(FunctionCall) Value; AssertFunction(next); panic(err)
	cnReflect             // func() (Value, error); returns err as is
	cnReflectWrap         // func() (Value, error); returns fmt.Errorf("ctx: %w", err)
	cnReflectNoErr        // func() Value; panic(err)
	cnCtor                // func(ConstructorCall) *Object, called from script with new
	cnExportErr           // ExportTo(next, &func() (Value, error)); returns the error as is (reflect style)
	cnExportPanic         // ExportTo(next, &func() Value): the gateway panics on exceptions
	cnTryGet              // rt.Try(func(){ v = obj.Get("x") }) over a script getter; panic(ex)
	cnForOf               // rt.Try(func(){ rt.ForOf(iterable, ...) }) over a script iterator; panic(ex)
	cnProxyCfg            // rt.NewProxy(target, &ProxyTrapConfig{Get: ...}) read from script
	cnDynamic             // rt.NewDynamicObject(d) whose Get calls next, read from script
	cnSwallow             // host swallows *Exception (returns a marker), propagates everything else
	cnCtorReenter         // AssertConstructor(script constructor calling next); panic(err)
	cnRunProgram          // nested rt.RunString("next()"); panic(err)
	cnForOfStep           // rt.ForOf over a SCRIPT iterable handed in by the script shim above; the Go step callback (or the iterable's next()) calls the next frame
	cnFuncGoError         // func(FunctionCall) Value; on error from the nested Callable: panic(rt.NewGoError(err)) - the idiomatic re-raise of a native without error result
	nChainKinds
)

var chKindCodes = [...]string{"Jp", "Jr", "Jf", "Jb", "Js", "Jw", "Jg", "Jx", "Jn", "Jj", "Je", "Jk", "Ji", "Ja",
	"Nf", "Nr", "Nw", "Np", "Nc", "Ne", "Nx", "Ng", "No", "Nt", "Nd", "Ns", "Nk", "Nn", "Nq", "Nz"}

var chKindNames = [...]string{"J-plain", "J-catch-rethrow", "J-finally", "J-catch-rethrow+finally", "J-catch-swallow", "J-catch-wrap",
	"J-getter", "J-proxy-trap", "J-generator", "J-promise", "J-eval", "J-class-ctor", "J-host-iterator", "J-iterate-builtin",
	"N-FunctionCall", "N-reflect(error)", "N-reflect-wrapped(%w)", "N-reflect-noerr(panic)", "N-ConstructorCall", "N-ExportTo(error)",
	"N-ExportTo(panic)", "N-Try+Get", "N-Try+ForOf", "N-ProxyTrapConfig", "N-DynamicObject", "N-swallow", "N-AssertConstructor", "N-RunProgram", "N-ForOf-step", "N-FunctionCall(NewGoError)"}

// the draw table: index 0 is the simplest frame; catch/finally and wrapping frames get extra weight
var chKindTable = [...]int{cjPlain, cjRethrow, cjFinally, cjBoth, cjSwallow, cjWrap, cjGetter, cjProxy, cjGen, cjJob, cjEval, cjClass,
	cnFunc, cnReflect, cnReflectWrap, cnReflectNoErr, cnCtor, cnExportErr, cnExportPanic, cnTryGet, cnForOf, cnProxyCfg, cnDynamic,
	cnSwallow, cnCtorReenter, cnRunProgram,
	cjRethrow, cjRethrow, cjFinally, cjFinally, cjBoth, cjWrap, cnReflectWrap, cnReflectWrap, cnReflectWrap, cnFunc, cnReflect, cnExportErr,
	cnReflectNoErr, cnExportPanic, cnDynamic, cnProxyCfg, cnCtor, cjJob,
	cjHostIter, cjHostIter, cjHostIter, cjHostIter, cjHostIter, cjHostIter,
	cjIterBuiltin, cjIterBuiltin, cjIterBuiltin, cjIterBuiltin, cjIterBuiltin, cjIterBuiltin, cjIterBuiltin,
	cnForOfStep, cnForOfStep, cnForOfStep, cnForOfStep, cnForOfStep, cnForOfStep, cnForOfStep, cnForOfStep,
	cnFuncGoError, cnFuncGoError, cnFuncGoError, cnFuncGoError, cnFuncGoError, cnFuncGoError}

func chIsNative(k int) bool { return k >= cnFunc }

// iterate()-based built-ins and non-goja Go panics: (a) one raised by the per-element callback passes without the iterator's
// return() being called, (b) one raised by return() itself while an exception from the callback propagates takes over and
// reaches the host. goja used to classify panics in iteratorRecord.iterate() with asUncatchableException() only (return()
// ran during a foreign panic, and a foreign panic from return() was swallowed); repaired, asserted by default.
var chStrictIterateForeign = os.Getenv("VERIF_C14_ITERATE_FOREIGN") != "0"

// Runtime.ForOf ("a Go equivalent of for-of loop"): when the step callback has thrown a script exception the iterator is
// closed and the ORIGINAL exception goes on, whatever return() throws (ECMA-262 IteratorClose with a throw completion).
// goja used to call returnIter() unprotected there, so return()'s exception superseded the one being propagated; repaired.
var chForOfOriginalWins = os.Getenv("VERIF_C14_FOROF_GO_ORIGINAL_WINS") != "0" // goja repaired: asserted by default

var chStrictForOf = os.Getenv("VERIF_C14_FOROF_STACK") != "0" // goja repaired (commit 941aac2): asserted by default

type chFrame struct {
	kind, sel int
	// cjHostIter only, decided by the fault schedule: what the Go-implemented return() / next() of the iterator do
	retAct, nextAct int
	// cnForOfStep only, decided by the fault schedule: what the SCRIPT return() method of the iterable does
	sret int
}

// cnForOfStep variants (sel): bit 0: the native's convention, bit 1: who calls the next frame
const (
	fosReflect = 1 // func(it Value) (Value, error) with rt.Try around rt.ForOf (else: func(FunctionCall) Value, plain call)
	fosInNext  = 2 // the iterable's script next() calls the next frame (else: the Go step callback does)
	nFosSel    = 4
)

// what the script return() of a cnForOfStep iterable does
const (
	sretObject = iota // logs r<K>, returns {}
	sretThrow         // logs r<K>, throws a value
	sretAbsent        // there is no return() method
)

var chSretNames = [...]string{"returns {}", "throws", "absent"}

// chSretOf derives it from the same schedule draw as the host iterators' return() action
func chSretOf(retAct int) int {
	switch {
	case chRetThrows(retAct):
		return sretThrow
	case chRetForeign(retAct):
		return sretAbsent
	}
	return sretObject
}

// cjHostIter variants (sel): how the script consumes the host iterator
const (
	iterForOfReturn  = iota // for (var x of HI()) { return B(K, next()); }
	iterForOfBreak          // for (var x of HI()) { r = B(K, next()); break; } return r;
	iterForOfExhaust        // for (var x of HI()) { r = B(K, next()); } return r;     the iterator ends by itself: no close
	iterDestructure         // var [x = B(K, next())] = HI(); return x;
	nIterSel
)

// cjIterBuiltin variants (sel): which built-in drives the iterator through iteratorRecord.iterate()
const (
	biArrayFrom    = iota // Array.from(HI(), function(v){ return B(K, next()); })[0]
	biSetAdd              // new (class extends Set { add(v){ r = B(K, next()); } })(HI())
	biArrayFromGen        // Array.from(g(), mapper) over function* g(){ try { yield 1; } finally { F(K, ok); } }
	biPromiseAll          // Promise.all.call(PK, HI()) with PK.resolve calling next(): exceptions reject the result promise
	nBuiltinSel
)

var chBuiltinSelNames = [...]string{"Array.from mapper", "Set subclass add()", "Array.from mapper over a generator with try/finally", "Promise.all with a patched resolve"}

// chUsesHostIter: the frame consumes a host-implemented iterator HI<K>() (its return() / next() are the schedule's to decide)
func (f chFrame) usesHostIter() bool {
	return f.kind == cjHostIter || f.kind == cjIterBuiltin && f.sel%nBuiltinSel != biArrayFromGen
}

var chIterSelNames = [...]string{"for-of left by return", "for-of left by break", "for-of run to exhaustion", "array destructuring default"}

// what the native return() does when the iterator is closed
const (
	retNothing         = iota
	retValue           // panic(Value)
	retException       // panic(*Exception) captured earlier
	retGoError         // reflect-style return of a Go error
	retForeignString   // panic("...")
	retForeignStruct   // panic(chForeignStruct{...})
	retForeignRuntime  // nil map write
	retInterrupt       // rt.Interrupt(v), then normal return
	retWrappedOverflow // a nested call made by return() overflows the call stack; return() hands back fmt.Errorf("...: %w", err)
	nRetActs
)

var chRetActNames = [...]string{"nothing", "panic-value", "panic-exception", "go-error", "foreign-string", "foreign-struct", "foreign-runtime-error", "interrupt", "wrapped-overflow"}
var chRetActTable = [...]int{retNothing, retNothing, retNothing, retValue, retValue, retException, retGoError, retForeignString, retForeignString,
	retForeignStruct, retForeignRuntime, retForeignRuntime, retInterrupt, retInterrupt, retWrappedOverflow, retWrappedOverflow}

func chRetUncatchable(a int) bool { return a == retInterrupt || a == retWrappedOverflow }

func chRetForeign(a int) bool { return a >= retForeignString && a <= retForeignRuntime }
func chRetThrows(a int) bool  { return a == retValue || a == retException || a == retGoError }

// what the native next() does
const (
	nextNormal      = iota
	nextThrowFirst  // the first call panics with a Value: the loop body never runs, nothing is closed
	nextThrowSecond // the second call (only made by the exhausting loop) panics with a Value: nothing is closed
)

var chNextActTable = [...]int{nextNormal, nextNormal, nextNormal, nextNormal, nextNormal, nextNormal, nextThrowFirst, nextThrowSecond}

// chIterVals: the values the host's iterator of frame k raises (made by the host before the chain runs).
type chIterVals struct {
	retPay, nextPay *chPay      // payloads of catchable raises of return() / next()
	foreign         interface{} // foreign panic value of return() (nil for the runtime error)
	foreignRT       string      // message of the runtime error
}

// cjJob variants (sel)
const (
	jobThenFunc   = iota // Promise.resolve().then(function(){ return next(); })
	jobThenDirect        // Promise.resolve().then(next)
	jobExecutor          // new Promise(function(){ next(); })         next runs synchronously
	jobAsyncSync         // (async function(){ return next(); })()     next runs synchronously
	jobAsyncAwait        // (async function(){ await null; return next(); })()
	nJobSel
)

// cjGen variants (sel): who drives the generator
const (
	genForOf = iota
	genNext
	genSpread
	genDestructure
	nGenSel
)

// jobSync: the frame below a promise frame runs synchronously inside the frame (executor, async function before its first
// await): catchable states become a rejection, everything else propagates synchronously.
func (f chFrame) jobSync() bool {
	return f.kind == cjJob && (f.sel%nJobSel == jobExecutor || f.sel%nJobSel == jobAsyncSync)
}

// ---- entry API kinds ---------------------------------------------------------------------------------------------

const (
	ceRunProgram = iota
	ceCallable
	ceConstructor
	ceExportErr
	ceExportPanic
	ceTryGet // catchable payloads only: it is not a script-running entry point that clears interrupts or drains jobs
	nChainEntries
)

var chEntryNames = [...]string{"RunProgram", "Callable", "Constructor", "ExportTo-func(error)", "ExportTo-func(panic)", "Try+Object.Get"}

// ---- payload kinds -----------------------------------------------------------------------------------------------

const (
	cpNone = iota
	// script `throw`
	cpJsNumber
	cpJsString
	cpJsBoolean
	cpJsNull
	cpJsUndefined
	cpJsSymbol
	cpJsBigInt
	cpJsObject
	cpJsArray
	cpJsFunction
	cpJsError
	cpJsTypeError
	cpJsCustomError
	cpJsFrozen
	cpJsProxy
	cpJsEarlierGoError // a GoError made by the host (rt.NewGoError) while the runtime was idle, stored in a global
	cpJsIdleTypeError  // rt.NewTypeError(...) made by the host while idle
	cpJsIdleError      // rt.New(Error) made by the host while idle
	cpJsJobGoError     // the GoError goja made for a reflect-wrapped native that failed as a promise reaction job of an earlier call, saved by script
	// native panic(Value)
	cpGoNumber
	cpGoString
	cpGoBoolean
	cpGoNull
	cpGoUndefined
	cpGoSymbol
	cpGoBigInt
	cpGoObject
	cpGoArray
	cpGoTypeError
	cpGoGoError       // panic(rt.NewGoError(sentinel))
	cpGoException     // panic(*Exception) captured from an earlier failed call (value: an Error instance)
	cpGoExceptionPrim // same, the earlier call threw a string
	// reflect-style return of a Go error
	cpErrSentinel
	cpErrWrapped
	cpErrJoined
	cpErrCustom
	cpErrWrapsException // fmt.Errorf("w: %w", earlier *Exception)
	cpErrException      // returns the earlier *Exception itself: documented to be thrown as is
	// foreign panics
	cpForeignString
	cpForeignStruct
	cpForeignError
	cpForeignNilMap
	cpForeignIndex
	// uncatchable
	cpIntrNative
	cpIntrTick
	cpDepth
	nChainPayloads
)

var chPayloadNames = [...]string{"none",
	"js-number", "js-string", "js-boolean", "js-null", "js-undefined", "js-symbol", "js-bigint", "js-object", "js-array", "js-function",
	"js-error", "js-typeerror", "js-custom-error", "js-frozen", "js-proxy", "js-earlier-goerror", "js-idle-typeerror", "js-idle-error", "js-job-goerror",
	"go-number", "go-string", "go-boolean", "go-null", "go-undefined", "go-symbol", "go-bigint", "go-object", "go-array", "go-typeerror",
	"go-goerror", "go-exception", "go-exception-prim",
	"err-sentinel", "err-wrapped", "err-joined", "err-custom-type", "err-wraps-exception", "err-exception",
	"foreign-string", "foreign-struct", "foreign-error", "foreign-nil-map-write", "foreign-index-out-of-range",
	"intr-native", "intr-tick", "depth-limit"}

func chPayloadJS(p int) bool { return p >= cpJsNumber && p <= cpJsJobGoError }

// chPayloadPreCreated: a script throw of an Error object that was made while the VM call stack was empty. Its creation
// stack is empty, so (like for any thrown value without a usable creation stack) the stack is that of the throw site.
func chPayloadPreCreated(p int) bool { return p >= cpJsEarlierGoError && p <= cpJsJobGoError }
func chPayloadGoValue(p int) bool    { return p >= cpGoNumber && p <= cpGoExceptionPrim }
func chPayloadGoErr(p int) bool      { return p >= cpErrSentinel && p <= cpErrException }
func chPayloadForeign(p int) bool    { return p >= cpForeignString && p <= cpForeignIndex }
func chPayloadUncatch(p int) bool    { return p >= cpIntrNative }
func chPayloadCatchable(p int) bool  { return p >= cpJsNumber && p <= cpErrException }

// raiser flavours (how the innermost raising frame is implemented)
const (
	crJS      = iota // a script function
	crFunc           // func(FunctionCall) Value
	crReflect        // func() (Value, error)
)

// ---- payload descriptors -----------------------------------------------------------------------------------------

const (
	pkKnown   = iota // the host holds the very value (val is bound before or when it is raised)
	pkGoError        // a GoError object made by goja around a Go error returned by a native frame; bound at first sighting
	pkWrapJS         // new Error("wrap-K", {cause: e}) made by a script frame; bound at first sighting
)

// chPay says what a script-visible exception value must be and what the Go error chain behind it must look like.
type chPay struct {
	kind  int
	class string     // rendering in the event log
	val   goja.Value // the value, once the host knows it
	// Go side (hasGo: the value is a GoError whose 'value' property holds a Go error)
	hasGo              bool
	goErr              error // that Go error (filled in by the native frame that makes it, before anybody can see it)
	isA, isB, asCustom bool
	spine              []*chPay   // payloads of the *Exceptions in the Unwrap chain of goErr, outermost first
	goErrIs            *chPay     // goErr IS the *Exception carrying this payload (a native wrapped the nested call's error with NewGoError)
	mustBe             goja.Value // the object, when a host function made it (compared at first sighting, after the structural check)
	// pkWrapJS
	wrapK  int
	cause  *chPay
	nwraps int // how many native %w wrappers are around the original payload
}

const (
	csNormal = iota
	csThrow
	csForeign
	csUncatch
)

type chState struct {
	kind      int
	foreign   interface{} // csForeign: the very panic value the host must recover
	foreignRT string      // csForeign: ... or the message of the Go runtime error
	normal    string
	p         *chPay
	strictTop bool // Stack()[0] must be the raising script function at its line
	someTop   bool // Stack() must be non-empty
	topIfAny  bool // ... provided some script code is active where the exception record / Error object is made
	samePtr   bool // the host must receive the very *Exception the raiser panicked with / returned
}

// chModel is the prediction for one (chain, entry, payload).
type chModel struct {
	n        int
	in       []chState // in[K], K=1..n: what frame K gets back from its call to next; in[0]: what the host gets
	deferred *chState  // a foreign panic that surfaces from a promise job while the jobs are drained
	logs     [][]string
	made     []*chPay // made[K]: the payload frame K creates (Nw, Ne, Jw)
	segOf    []int    // segment of the synchronous events of frame K (index n+1: the raiser)

	crossRethrow, crossFinally, swallowJS, swallowHost, crossJob, crossProxy, crossDynamic, crossCtor, crossExport  bool
	wrappedTwice, crossCatchOrFinally                                                                               bool
	truncatedAt                                                                                                     int // >0: next() of this frame threw, deeper frames never run
	iterClosedOnThrow, iterClosedOnReturn, retThrowIgnored, retThrowReplaced, retForeignOnThrow, retForeignOnReturn bool
	iterNotClosedAbrupt, nextThrew                                                                                  bool
	builtinClosedOnThrow, builtinNotClosedAbrupt                                                                    bool
	forOfClosedOnThrow, forOfClosedOnStop, forOfPassedForeign, forOfNextThrew                                       bool
	rewrapped, rewrappedGoErr                                                                                       bool
}

func (m *chModel) ev(seg int, f string, a ...interface{}) {
	m.logs[seg] = append(m.logs[seg], fmt.Sprintf(f, a...))
}

// chSegments: events of frames that run inside a promise job are logged in a segment of their own, because WHEN a job
// runs relative to the frames above it is C10's matter (and depends on which API call drains the queue), not C14's.
func chSegments(frames []chFrame) []int {
	n := len(frames)
	seg := make([]int, n+2)
	cur := 0
	for k := 1; k <= n+1; k++ {
		seg[k] = cur
		if k <= n && frames[k-1].kind == cjJob && !frames[k-1].jobSync() {
			cur = k
		}
	}
	return seg
}

// chScriptActive: is any script code (a script frame, a getter / iterator / constructor / nested program a native frame
// goes through, the entry program) active while frame k runs? If not, goja has no frame to put into a stack trace made
// there: native functions entered directly from Go are not on its call stack. Relaxation: "a stack whose top frame names
// the throw site" is asserted as "non-empty stack" only when this holds.
func chScriptActive(frames []chFrame, entry, k int) bool {
	for j := k - 1; j >= 1; j-- {
		f := frames[j-1]
		if f.kind == cjJob && !f.jobSync() {
			return f.sel%nJobSel != jobThenDirect
		}
		switch f.kind {
		case cnFunc, cnFuncGoError, cnReflect, cnReflectWrap, cnReflectNoErr, cnExportErr, cnExportPanic, cnSwallow:
		default:
			return true
		}
	}
	return entry == ceRunProgram || entry == ceConstructor || entry == ceTryGet
}

// chPredict runs the transfer model. root is the state the raiser produces (csNormal "ok" when nothing is raised).
func chPredict(frames []chFrame, entry int, root chState, iv []chIterVals) *chModel {
	n := len(frames)
	m := &chModel{n: n, in: make([]chState, n+1), logs: make([][]string, n+2), made: make([]*chPay, n+2), segOf: chSegments(frames)}
	// way in: every native frame logs its entry, then the raiser logs R
	start := n
	for k := 1; k <= n; k++ {
		f := frames[k-1]
		if chIsNative(f.kind) {
			m.ev(m.segOf[k], "N%d", k)
		}
		if f.usesHostIter() {
			m.ev(m.segOf[k], "I%d", k)
			m.ev(m.segOf[k], "n%d", k)
			if f.nextAct == nextThrowFirst {
				// the iterator's first step throws: the for-of / destructuring statement of frame k throws that value, the
				// iterator is NOT closed (ECMA-262: an iterator that throws from next() is considered done)
				m.truncatedAt, m.nextThrew = k, true
				start = k - 1
				break
			}
		}
	}
	// way out
	var s chState
	if k := m.truncatedAt; k > 0 {
		s = chState{kind: csThrow, p: iv[k].nextPay, someTop: true}
		if f := frames[k-1]; f.kind == cjIterBuiltin && f.sel%nBuiltinSel == biPromiseAll {
			// Promise.all turns it into a rejection of its result promise
			m.ev(k, "C%d(%s)", k, s.p.class)
			s = chState{kind: csNormal, normal: fmt.Sprintf("job-%d", k)}
		}
	} else {
		m.ev(m.segOf[n+1], "R")
		s = root
		if s.topIfAny && chScriptActive(frames, entry, n+1) {
			s.someTop = true
		}
	}
	for k := start; k >= 1; k-- {
		m.in[k] = s
		f := frames[k-1]
		seg := m.segOf[k]
		abrupt := s.kind != csNormal
		catchable := s.kind == csThrow
		if chIsNative(f.kind) && s.kind == csNormal && !(f.kind == cnForOfStep && f.sel&fosInNext != 0) {
			m.ev(seg, "X%d(%s)", k, s.normal)
		}
		if abrupt {
			switch f.kind {
			case cjProxy, cnProxyCfg:
				m.crossProxy = true
			case cnDynamic:
				m.crossDynamic = true
			case cnCtor, cnCtorReenter, cjClass:
				m.crossCtor = true
			case cnExportErr, cnExportPanic:
				m.crossExport = true
			case cjJob:
				m.crossJob = true
			case cjRethrow, cjFinally, cjBoth, cjSwallow, cjWrap:
				m.crossCatchOrFinally = true
			}
		}
		switch f.kind {
		case cjRethrow:
			if catchable {
				m.ev(seg, "C%d(%s)", k, s.p.class)
				m.crossRethrow = true
				// `throw e` makes a new exception record at the rethrow site: only the VALUE keeps its identity
				s.strictTop, s.samePtr = false, false
			}
		case cjFinally:
			switch s.kind {
			case csNormal:
				m.ev(seg, "F%d(1)", k)
			case csThrow:
				m.ev(seg, "F%d(0)", k)
				m.crossFinally = true
				// the pending exception is re-raised when the finally block completes; whether that is the same
				// *Exception record is not promised: relaxed to "value identity + some stack"
				s.samePtr = false
			}
			// csForeign, csUncatch: the finally block must NOT run: no event
		case cjBoth:
			switch s.kind {
			case csNormal:
				m.ev(seg, "F%d(1)", k)
			case csThrow:
				m.ev(seg, "C%d(%s)", k, s.p.class)
				m.ev(seg, "F%d(0)", k)
				m.crossRethrow, m.crossFinally = true, true
				s.strictTop, s.samePtr = false, false
			}
		case cjSwallow:
			if catchable {
				m.ev(seg, "C%d(%s)", k, s.p.class)
				m.swallowJS = true
				s = chState{kind: csNormal, normal: fmt.Sprintf("swallowed-%d", k)}
			}
		case cjWrap:
			if catchable {
				m.ev(seg, "C%d(%s)", k, s.p.class)
				m.crossRethrow = true
				q := &chPay{kind: pkWrapJS, class: "[Error]", wrapK: k, cause: s.p, nwraps: s.p.nwraps}
				m.made[k] = q
				// a NEW payload from here on; its stack is that of the new Error (made in frame k)
				s = chState{kind: csThrow, p: q, someTop: true}
			}
		case cjJob:
			switch s.kind {
			case csNormal:
				s = chState{kind: csNormal, normal: fmt.Sprintf("job-%d", k)}
			case csThrow:
				// the promise is rejected with the value; the .catch handler (a later job) sees that very value;
				// nothing propagates synchronously
				m.ev(k, "C%d(%s)", k, s.p.class)
				s = chState{kind: csNormal, normal: fmt.Sprintf("job-%d", k)}
			default:
				if !f.jobSync() {
					// frames above return normally; the condition surfaces from whichever API call drains the job queue
					d := s
					m.deferred = &d
					s = chState{kind: csNormal, normal: fmt.Sprintf("job-%d", k)}
				}
			}
		case cnReflectWrap:
			if catchable {
				// documented: an error that is not itself an *Exception is wrapped in a GoError
				q := &chPay{kind: pkGoError, class: "[Error]", hasGo: true, isA: s.p.isA, isB: s.p.isB, asCustom: s.p.asCustom,
					spine: append([]*chPay{s.p}, s.p.spine...), nwraps: s.p.nwraps + 1}
				if q.nwraps >= 2 {
					m.wrappedTwice = true
				}
				m.made[k] = q
				s = chState{kind: csThrow, p: q, someTop: chScriptActive(frames, entry, k)}
			}
			// csUncatch: stays uncatchable through the %w wrapper; csForeign: flies through
		case cnFuncGoError:
			if catchable {
				// the native wraps the *Exception it got from its nested Callable in a GoError and panics with that object: in
				// script a catchable GoError whose 'value' is that *Exception; errors.Is/As/Unwrap on what the host finally
				// gets must walk through it to the inner exception and to whatever Go error that one carries
				q := &chPay{kind: pkGoError, class: "[Error]", hasGo: true, isA: s.p.isA, isB: s.p.isB, asCustom: s.p.asCustom,
					spine: append([]*chPay{s.p}, s.p.spine...), goErrIs: s.p, nwraps: s.p.nwraps + 1}
				m.rewrapped = true
				if q.nwraps >= 2 {
					m.wrappedTwice = true
				}
				if s.p.hasGo {
					m.rewrappedGoErr = true
				}
				m.made[k] = q
				s = chState{kind: csThrow, p: q, someTop: chScriptActive(frames, entry, k)}
			}
		case cnExportErr:
			if catchable && s.p.hasGo && s.p.goErrIs != nil {
				// the bare Go error the gateway hands over is itself an *Exception: returned reflect-style it is
				// (documented) thrown as is, i.e. the inner exception is back
				s = chState{kind: csThrow, p: s.p.goErrIs}
				break
			}
			if catchable && s.p.hasGo {
				// documented: "instances of GoError are unwrapped, i.e. their 'value' is returned instead": the native frame
				// gets the bare Go error and returns it, goja wraps it in a fresh GoError
				q := &chPay{kind: pkGoError, class: "[Error]", hasGo: true, goErr: s.p.goErr, isA: s.p.isA, isB: s.p.isB, asCustom: s.p.asCustom,
					spine: s.p.spine, nwraps: s.p.nwraps}
				m.made[k] = q
				s = chState{kind: csThrow, p: q, someTop: chScriptActive(frames, entry, k)}
			}
		case cnSwallow:
			if catchable {
				m.ev(seg, "S%d(%s)", k, s.p.class)
				m.swallowHost = true
				s = chState{kind: csNormal, normal: fmt.Sprintf("host-swallowed-%d", k)}
			}
		case cjHostIter:
			v := f.sel % nIterSel
			switch s.kind {
			case csNormal:
				m.ev(seg, "b%d", k)
				if v == iterForOfExhaust {
					m.ev(seg, "n%d", k) // the step that finds the iterator done (or throws): no close either way
					if f.nextAct == nextThrowSecond {
						m.nextThrew = true
						s = chState{kind: csThrow, p: iv[k].nextPay, someTop: true}
					}
					break
				}
				// IteratorClose with a normal / return / break completion: return() is called and what it throws REPLACES the completion
				m.ev(seg, "r%d", k)
				m.iterClosedOnReturn = true
				switch {
				case chRetThrows(f.retAct):
					m.retThrowReplaced = true
					s = chState{kind: csThrow, p: iv[k].retPay, someTop: true}
				case chRetForeign(f.retAct):
					m.retForeignOnReturn = true
					s = chState{kind: csForeign, foreign: iv[k].foreign, foreignRT: iv[k].foreignRT}
				}
			case csThrow:
				// IteratorClose with a throw completion: return() is called, whatever it throws is IGNORED and the original
				// exception goes on. A non-goja panic in it is not an exception: it takes over and must reach the host.
				m.ev(seg, "r%d", k)
				m.iterClosedOnThrow = true
				switch {
				case chRetThrows(f.retAct):
					m.retThrowIgnored = true
				case chRetForeign(f.retAct):
					m.retForeignOnThrow = true
					s = chState{kind: csForeign, foreign: iv[k].foreign, foreignRT: iv[k].foreignRT}
				}
			default:
				// a foreign panic or an uncatchable condition passes: return() must NOT be called (no event)
				m.iterNotClosedAbrupt = true
			}
		case cnForOfStep:
			// Runtime.ForOf: "a Go equivalent of for-of loop". The step callback stops after the first value, so on normal
			// completion the iterator is closed (what return() throws then replaces the completion); a script exception
			// leaving the step callback closes it too and goes on; an exception thrown by next() does not close it. An
			// uncatchable condition (bare or %w-wrapped) or a foreign panic passes WITHOUT return() being called: no event.
			inNext := f.sel&fosInNext != 0
			closeIt := func() bool { // returns true if return() threw
				if f.sret == sretAbsent {
					return false
				}
				m.ev(seg, "r%d", k)
				return f.sret == sretThrow
			}
			switch s.kind {
			case csNormal:
				if inNext {
					m.ev(seg, "b%d", k)
				}
				m.forOfClosedOnStop = true
				if closeIt() {
					s = chState{kind: csThrow, p: iv[k].retPay, someTop: true}
				} else if inNext {
					m.ev(seg, "X%d(%s)", k, s.normal)
				}
			case csThrow:
				if inNext {
					m.forOfNextThrew = true // not closed
					break
				}
				m.forOfClosedOnThrow = true
				if closeIt() && !chForOfOriginalWins {
					s = chState{kind: csThrow, p: iv[k].retPay, someTop: true}
				}
			default:
				m.forOfPassedForeign = m.forOfPassedForeign || s.kind == csForeign
			}
		case cjIterBuiltin:
			// iteratorRecord.iterate(): the built-in calls next(), then the callback (which calls the next frame).
			// ECMA-262 IfAbruptCloseIterator: a throw from the callback closes the iterator (return()'s own throw is ignored)
			// and goes on; the iterator ending by itself or throwing from next() is not closed. An uncatchable condition - bare
			// or wrapped through any %w chain - or a foreign panic passes without return() being called: no event.
			v := f.sel % nBuiltinSel
			switch s.kind {
			case csNormal:
				m.ev(seg, "b%d", k)
				if v == biArrayFromGen {
					m.ev(seg, "F%d(1)", k) // the generator resumes, runs its finally block and completes
					break
				}
				m.ev(seg, "n%d", k)
				if f.nextAct == nextThrowSecond {
					m.nextThrew = true
					s = chState{kind: csThrow, p: iv[k].nextPay, someTop: true}
				}
			case csThrow:
				m.builtinClosedOnThrow = true
				if v == biArrayFromGen {
					m.ev(seg, "F%d(0)", k) // generator.return() runs the finally block
					break
				}
				m.ev(seg, "r%d", k)
				switch {
				case chRetThrows(f.retAct):
					m.retThrowIgnored = true
				case chRetForeign(f.retAct) && chStrictIterateForeign:
					m.retForeignOnThrow = true
					s = chState{kind: csForeign, foreign: iv[k].foreign, foreignRT: iv[k].foreignRT}
				}
			default:
				m.builtinNotClosedAbrupt = true
				if !chStrictIterateForeign {
					// known deviation (a): the iterator is closed although a foreign panic is propagating; whatever return()
					// throws or panics with is dropped
					if v == biArrayFromGen {
						m.ev(seg, "F%d(0)", k)
					} else {
						m.ev(seg, "r%d", k)
					}
				}
			}
			if v == biPromiseAll {
				switch s.kind {
				case csNormal:
					s = chState{kind: csNormal, normal: fmt.Sprintf("job-%d", k)}
				case csThrow:
					// the result promise is rejected with the value; the .catch handler (a later job) sees that very value
					m.ev(k, "C%d(%s)", k, s.p.class)
					s = chState{kind: csNormal, normal: fmt.Sprintf("job-%d", k)}
				}
			}
		case cjGen:
			if v := f.sel % nGenSel; catchable && (v == genForOf || v == genDestructure) && !chStrictForOf {
				// KNOWN DEVIATION (reported): for-of and array destructuring re-throw the VALUE of an exception raised by the iterator's
				// next() (vm.throw(ex.val)), so for a non-Error value the stack is re-captured at the loop, not at the throw
				// site. Not asserted unless VERIF_C14_FOROF_STACK=1.
				s.strictTop, s.samePtr = false, false
			}
		}
		// every other kind hands the state on unchanged (for csThrow: the same value, the same *Exception)
	}
	m.in[0] = s
	switch entry {
	case ceConstructor:
		m.crossCtor = m.crossCtor || s.kind != csNormal
	case ceExportErr, ceExportPanic:
		m.crossExport = m.crossExport || s.kind != csNormal
	}
	return m
}
