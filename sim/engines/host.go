// Package engines contains the simulation engines. Each engine replaces the embedding host application of a goja
// Runtime (its native functions, event loop, watchdog, goroutines, Go-owned buffers) by simulated parts driven from a
// choice tape, and runs the real goja code against them.
package engines

import (
	"errors"
	"fmt"
	"strings"

	"github.com/dop251/goja"

	"verif/sim/core"
)

// Event is one entry of the host-observable event log of a run.
type Event struct {
	Kind string // "P" probe, "A" marker, "put", ...
	Site int
	Arg  string
	Tick int64 // VM tick count when logged (not part of equality)
}

func (e Event) String() string {
	if e.Arg != "" {
		return fmt.Sprintf("%s%d(%s)", e.Kind, e.Site, e.Arg)
	}
	return fmt.Sprintf("%s%d", e.Kind, e.Site)
}

func (e Event) Same(o Event) bool { return e.Kind == o.Kind && e.Site == o.Site && e.Arg == o.Arg }

func renderLog(l []Event) string {
	var sb strings.Builder
	for i, e := range l {
		if i > 0 {
			sb.WriteByte(' ')
		}
		sb.WriteString(e.String())
	}
	return sb.String()
}

// Fault kinds a probe can inject.
const (
	FNone      = iota
	FThrowPrim // panic(Value) primitive
	FThrowErr  // panic(Value) Error instance
	FThrowExc  // panic(*Exception) built by the runtime (rethrow style)
	FGoErr     // reflect-wrapped probe returns a Go error (only Q probes; P probes panic with a GoError value)
	FIntr      // rt.Interrupt(v) then return normally
	FTickIntr  // rt.Interrupt(v) from the tick hook at VM tick T (position is a tick, not a probe)
	FDepth     // call-depth limit (position unused; Arg = limit)
	FForeign   // panic("foreign") - must reach the host untouched
	FAsyncIntr // a second goroutine (simulated watchdog) calls rt.Interrupt(v) at VM tick T; Limit=2: two watchdogs in a row
	nFaultKinds
)

var faultNames = [...]string{"none", "throw-prim", "throw-error", "throw-exception", "goerr", "intr", "tick-intr", "depth", "foreign", "async-intr"}

type Fault struct {
	Kind  int
	Call  int   // index of the outermost API call in the history
	At    int64 // k-th probe invocation within that call (0-based), or tick for FTickIntr
	Limit int   // FDepth
	Split int   // FAsyncIntr: the interrupting goroutine is descheduled inside Interrupt() for this many VM instructions
}

func (f Fault) String() string {
	switch f.Kind {
	case FDepth:
		return fmt.Sprintf("call#%d depth-limit=%d", f.Call, f.Limit)
	case FTickIntr, FAsyncIntr:
		if f.Split > 0 {
			return fmt.Sprintf("call#%d %s@tick%d(suspended inside Interrupt() at its synchronisation point #%d for %d instructions)", f.Call, faultNames[f.Kind], f.At, 1+(f.Split-1)%2, 1+(f.Split-1)/2)
		}
		return fmt.Sprintf("call#%d %s@tick%d(x%d)", f.Call, faultNames[f.Kind], f.At, 1+f.Limit)
	}
	return fmt.Sprintf("call#%d %s@probe%d", f.Call, faultNames[f.Kind], f.At)
}

func (f Fault) Uncatchable() bool {
	return f.Kind == FIntr || f.Kind == FTickIntr || f.Kind == FDepth || f.Kind == FAsyncIntr
}

var errSentinel = errors.New("sentinel-go-error")

type intrPayload struct{ id int }

// abortRun is panicked by the tick hook when a run exceeds its step budget.
type abortRun struct{ why string }

// Host is the simulated embedding application around one real goja Runtime.
type Host struct {
	rt  *goja.Runtime
	log []Event

	ticks     int64 // VM ticks since the current outermost call started
	probes    int64 // probe invocations since the current outermost call started
	maxTicks  int64
	totalStep int64

	fault      *Fault // the fault armed for the current call (nil = none)
	fired      bool
	firedTick  int64
	firedState goja.VerifState
	firedLog   int // len(log) when fired
	firedNest  int
	intrVal    *intrPayload
	preExc     error // an *Exception obtained from the runtime earlier, re-thrown by FThrowExc

	wd        [2]*watchdog // simulated interrupting goroutines (only when the engine asks for them)
	wdPayload [2]*intrPayload
	resumeAt  int64 // tick at which a watchdog suspended inside Interrupt() is resumed (0: none)
	splits    int   // Interrupt() calls that were suspended at their lock acquisition

	nestedProblem string
	logSwallow    int // nested InterruptedErrors dropped by a sloppy host native (mode 3)
	maxDepth      int // deepest call stack seen at a probe during the current call
	nestDepth     int // native->JS nesting depth right now
	inJob         bool

	store map[string]string

	progs map[string]*goja.Program // compiled once per host
	extra func(h *Host, site int)  // engine-specific action inside a probe (after logging, before the fault)
}

var curHost *Host

func init() {
	goja.VerifTick = func(r *goja.Runtime) {
		if h := curHost; h != nil && h.rt == r {
			h.tick()
		}
	}
}

func (h *Host) tick() {
	h.ticks++
	h.totalStep++
	if f := h.fault; f != nil && f.Kind == FTickIntr && !h.fired && h.ticks-1 == f.At {
		h.fire()
		h.intrVal = &intrPayload{id: int(f.At)}
		h.rt.Interrupt(h.intrVal)
	}
	if f := h.fault; f != nil && f.Kind == FAsyncIntr && !h.fired && h.ticks-1 == f.At {
		h.fire()
		h.intrVal = h.wdPayload[0]
		if f.Split > 0 && syncPointsBuilt {
			// the interrupting goroutine is descheduled INSIDE Interrupt(), at its first or second synchronisation point
			// outside the lock (lock acquisition, atomic store); the VM runs on for a few instructions, then Interrupt() completes
			h.wd[0].arm(1 + (f.Split-1)%2)
		}
		h.wd[0].release()
		h.wd[0].disarm()
		if h.wd[0].isParked() {
			h.resumeAt = h.ticks + int64(1+(f.Split-1)/2)
			h.splits++
		} else if f.Limit > 0 {
			h.intrVal = h.wdPayload[1]
			h.wd[1].release()
		}
	}
	if h.resumeAt > 0 && h.ticks >= h.resumeAt {
		h.resumeAt = 0
		h.wd[0].resume()
	}
	if h.ticks > h.maxTicks {
		if h.ticks > h.maxTicks+2000 {
			core.AbortRun() // the panic below keeps being swallowed
		}
		panic(&abortRun{why: "tick budget exceeded"})
	}
}

// hostSyncHook: a lock acquisition in goja code (instrumented build). Only the watchdog goroutines are of interest.
//
//go:norace
func hostSyncHook(kind int) {
	h := curHost
	if h == nil {
		return
	}
	for _, w := range h.wd {
		if w != nil && w.armed > 0 && w.gid == curGoroutineID() {
			w.atSyncPoint(kind)
			return
		}
	}
}

func (h *Host) fire() {
	h.fired = true
	h.firedTick = h.ticks
	h.firedState = h.rt.VerifState()
	h.firedLog = len(h.log)
	h.firedNest = h.nestDepth
}

func (h *Host) logEv(kind string, site int, arg string) {
	h.log = append(h.log, Event{Kind: kind, Site: site, Arg: arg, Tick: h.ticks})
}

// probeFault is called by every probe after logging; it may not return.
func (h *Host) probeFault(site int, reflectStyle bool) error {
	k := h.probes
	h.probes++
	h.totalStep++
	if d := h.rt.VerifState().CallStack; d > h.maxDepth {
		h.maxDepth = d
	}
	if h.extra != nil {
		h.extra(h, site)
	}
	f := h.fault
	if f == nil || h.fired || f.Kind == FTickIntr || f.Kind == FAsyncIntr || f.Kind == FDepth || f.At != k {
		return nil
	}
	h.fire()
	switch f.Kind {
	case FThrowPrim:
		panic(h.rt.ToValue(fmt.Sprintf("prim-%d", site)))
	case FThrowErr:
		panic(h.rt.NewTypeError("injected-%d", site))
	case FThrowExc:
		panic(h.preExc)
	case FGoErr:
		if reflectStyle {
			return fmt.Errorf("wrapped: %w", errSentinel)
		}
		panic(h.rt.NewGoError(fmt.Errorf("wrapped: %w", errSentinel)))
	case FIntr:
		h.intrVal = &intrPayload{id: site}
		h.rt.Interrupt(h.intrVal)
	case FForeign:
		panic(foreignPanic{site})
	}
	return nil
}

type foreignPanic struct{ site int }

func NewHost(maxTicks int64) *Host {
	h := &Host{rt: goja.New(), maxTicks: maxTicks, store: map[string]string{}, progs: map[string]*goja.Program{}}
	rt := h.rt
	rt.SetRandSource(func() float64 { return 0.5 })
	_, h.preExc = rt.RunString("throw new RangeError('pre-built exception')")
	rt.Set("P", func(call goja.FunctionCall) goja.Value {
		site := int(call.Argument(0).ToInteger())
		h.logEv("P", site, "")
		h.probeFault(site, false)
		return rt.ToValue(site & 3)
	})
	rt.Set("Q", func(site int) (int, error) {
		h.logEv("Q", site, "")
		if err := h.probeFault(site, true); err != nil {
			return 0, err
		}
		return site & 3, nil
	})
	rt.Set("A", func(call goja.FunctionCall) goja.Value {
		site := int(call.Argument(0).ToInteger())
		v := call.Argument(1)
		h.logEv("A", site, describe(v))
		return v
	})
	rt.Set("put", func(call goja.FunctionCall) goja.Value {
		k, v := call.Argument(0).String(), describe(call.Argument(1))
		h.store[k] = v
		h.logEv("put", 0, k+"="+v)
		return goja.Undefined()
	})
	return h
}

// describe renders a JS value for the log without calling into script code.
func describe(v goja.Value) string {
	if v == nil {
		return "nil"
	}
	switch {
	case goja.IsUndefined(v):
		return "undefined"
	case goja.IsNull(v):
		return "null"
	}
	if o, ok := v.(*goja.Object); ok {
		return "[" + o.ClassName() + "]"
	}
	return fmt.Sprintf("%T:%v", v.Export(), v.Export())
}

func (h *Host) compile(name, src string) (*goja.Program, error) {
	key := name + "\x00" + src // the name is part of rendered stack traces: never hand out a program compiled under another name
	if p, ok := h.progs[key]; ok {
		return p, nil
	}
	p, err := goja.Compile(name, src, false)
	if err != nil {
		return nil, err
	}
	h.progs[key] = p
	return p, nil
}

// startWatchdogs creates the simulated interrupting goroutines. Their payloads are published by the go statement.
func (h *Host) startWatchdogs() {
	for i := range h.wd {
		p := &intrPayload{id: 7000 + i}
		rt := h.rt
		h.wdPayload[i] = p
		h.wd[i] = startWatchdog(func() { rt.Interrupt(p) })
	}
}

func (h *Host) stopWatchdogs() {
	for i := range h.wd {
		if h.wd[i] != nil {
			h.wd[i].shutdown()
			h.wd[i] = nil
		}
	}
}
