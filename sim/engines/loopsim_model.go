package engines

import (
	"fmt"
	"strconv"
	"strings"

	"verif/sim/core"
)

// Reference model for C10: a transcription of the ECMA-262 promise machinery (27.2 Promise Objects, 27.7 AsyncFunction
// Objects, 9.5 Jobs) over the promise programs of loopsim_ast.go. Section numbers refer to ECMA-262 2023.
// The model does not share structure with goja: promises are records, functions are Go closures, the job queue is one
// slice, and the host hooks (HostPromiseRejectionTracker, HostEnqueuePromiseJob) are methods.

// ---- values --------------------------------------------------------------------------------------------------

const (
	mvUndef = iota
	mvInt
	mvProm
	mvThen    // object built from a thenable spec
	mvTypeErr // a TypeError instance (self resolution)
	mvArr     // array (Promise.all / allSettled result)
	mvSettled // {status, value|reason}
	mvAgg     // AggregateError with .errors
)

type mval struct {
	k   int
	n   int
	p   *mprom
	arr []mval
}

var mUndef = mval{k: mvUndef}

func mInt(n int) mval { return mval{k: mvInt, n: n} }

func (m *lmodel) desc(v mval) string {
	switch v.k {
	case mvUndef:
		return "u"
	case mvInt:
		return strconv.Itoa(v.n)
	case mvProm:
		if v.p.name >= 0 {
			return "P" + strconv.Itoa(v.p.name)
		}
		return "P?"
	case mvThen:
		return "T" + strconv.Itoa(v.n)
	case mvTypeErr:
		return "TypeError"
	case mvArr, mvAgg:
		var sb strings.Builder
		if v.k == mvAgg {
			sb.WriteString("Agg")
		}
		sb.WriteByte('[')
		for i, e := range v.arr {
			if i > 0 {
				sb.WriteByte(',')
			}
			sb.WriteString(m.desc(e))
		}
		sb.WriteByte(']')
		return sb.String()
	case mvSettled:
		if v.n == 0 {
			return "{f:" + m.desc(v.arr[0]) + "}"
		}
		return "{r:" + m.desc(v.arr[0]) + "}"
	}
	return "?"
}

// ---- records -------------------------------------------------------------------------------------------------

const (
	psPending = iota
	psFulfilled
	psRejected
)

var psNames = [...]string{"pending", "fulfilled", "rejected"}

// mfunc is a function object taking one argument; the bool result is "abrupt (throw) completion". nil is "not callable".
type mfunc func(arg mval) (mval, bool)

// 27.2.6 Properties of Promise Instances
type mprom struct {
	state            int
	result           mval
	fulfillReactions []*mreaction
	rejectReactions  []*mreaction
	isHandled        bool

	name int // slot it is registered under (-1: anonymous); not part of the specification
	root int // chain bookkeeping for the reach counters
}

// 27.2.1.1 PromiseCapability Records
type mcap struct {
	promise         *mprom
	resolve, reject mfunc
}

// 27.2.1.2 PromiseReaction Records
type mreaction struct {
	capability *mcap
	fulfill    bool
	handler    mfunc
}

type mtrack struct {
	handle bool
	p      *mprom
}

type lmtimer struct {
	fn        func()
	cancelled bool
	fired     bool
}

type lmAbort struct{ depth bool }

type lmodel struct {
	prog *lprog
	res  *core.Result // counters (nil: do not count)

	deviant       bool // reproduce goja's re-entrant drain (used only to classify a mismatch)
	entryCallable bool // the current macrotask was entered through a Callable

	queue   []func()
	inDrain bool

	events  []string
	tracker []mtrack

	slots    []*mprom
	stash    [][2]mfunc
	gstarted []bool
	gres     []mfunc
	grej     []mfunc
	glatch   []*bool
	timers   []*lmtimer
	tkeys    []int

	abortAt    int
	depthArmed bool
	thrown     string // description of the uncaught exception the synchronous part of the macrotask ended with

	jobs       int64
	asyncDepth int
	chainSeq   []int
	interleave bool
	anon       map[*mprom]int
}

func newLoopModel(p *lprog, res *core.Result, deviant bool) *lmodel {
	m := &lmodel{prog: p, res: res, deviant: deviant, anon: map[*mprom]int{}}
	m.slots = make([]*mprom, p.nSlots)
	m.stash = make([][2]mfunc, p.nStash)
	m.gstarted = make([]bool, p.nGo)
	m.gres = make([]mfunc, p.nGo)
	m.grej = make([]mfunc, p.nGo)
	m.glatch = make([]*bool, p.nGo)
	m.tkeys = make([]int, p.nTimers)
	for i := range m.tkeys {
		m.tkeys[i] = -1
	}
	return m
}

func (m *lmodel) count(name string) {
	if m.res != nil {
		m.res.Count(name, 1)
	}
}

// ev records one host call. The interrupt / depth-limit faults are positioned by event count.
func (m *lmodel) ev(s string) {
	m.events = append(m.events, s)
	if m.abortAt > 0 && len(m.events) == m.abortAt {
		panic(&lmAbort{})
	}
}

func (m *lmodel) evL(id int, v mval) { m.ev("L" + strconv.Itoa(id) + "(" + m.desc(v) + ")") }

// ---- 9.5 Jobs and host operations ----------------------------------------------------------------------------

// HostEnqueuePromiseJob: one FIFO queue.
func (m *lmodel) enqueue(job func()) {
	if m.inDrain {
		m.count("job-enqueued-during-drain")
	}
	m.queue = append(m.queue, job)
}

// HostPromiseRejectionTracker
func (m *lmodel) hostTrack(p *mprom, handle bool) {
	if handle {
		m.count("tracker-handle-after-reject")
	}
	m.tracker = append(m.tracker, mtrack{handle, p})
}

// drain runs jobs until the queue is empty; jobs enqueued meanwhile run in the same drain, after the older ones.
func (m *lmodel) drain() {
	for len(m.queue) > 0 {
		jobs := m.queue
		m.queue = nil
		for _, j := range jobs {
			m.jobs++
			j()
		}
	}
}

func (m *lmodel) noteChain(c int) {
	if !m.inDrain {
		return
	}
	m.count("handler-or-await-continuations-run-as-jobs")
	if n := len(m.chainSeq); n > 0 && m.chainSeq[n-1] == c {
		return
	}
	for _, x := range m.chainSeq {
		if x == c {
			m.interleave = true
		}
	}
	m.chainSeq = append(m.chainSeq, c)
}

// ---- 27.2.1 Promise abstract operations ----------------------------------------------------------------------

func (m *lmodel) newPromise() *mprom { return &mprom{name: -1, root: -1} }

// 27.2.1.3 CreateResolvingFunctions
func (m *lmodel) createResolvingFunctions(p *mprom) (resolve, reject mfunc, latch *bool) {
	alreadyResolved := new(bool)
	// 27.2.1.3.2 Promise Resolve Functions
	resolve = func(resolution mval) (mval, bool) {
		if *alreadyResolved {
			return mUndef, false
		}
		*alreadyResolved = true
		if resolution.k == mvProm && resolution.p == p {
			m.count("self-resolution")
			m.rejectPromise(p, mval{k: mvTypeErr})
			return mUndef, false
		}
		switch resolution.k {
		case mvProm:
			// Get(resolution, "then") is %Promise.prototype.then%, callable
			m.count("resolve-with-promise")
			thenable := resolution.p
			m.enqueue(func() { // 27.2.2.2 NewPromiseResolveThenableJob
				res2, rej2, _ := m.createResolvingFunctions(p)
				m.promiseThen(thenable, res2, rej2) // Call(then, thenable, «resolve, reject»); it cannot throw
			})
		case mvThen:
			t := m.prog.thens[resolution.n]
			switch t.kind {
			case thGetterThrows: // Get(resolution, "then") is an abrupt completion
				m.count("fault.thenable-throw")
				m.evL(t.id, mUndef)
				m.ev("B")
				m.rejectPromise(p, mInt(t.throwVal))
			case thNonCallable: // IsCallable(thenAction) is false
				m.fulfillPromise(p, resolution)
			default:
				m.count("resolve-with-thenable")
				m.enqueue(func() { // NewPromiseResolveThenableJob
					res2, rej2, _ := m.createResolvingFunctions(p)
					if v, thrown := m.callThenable(t, res2, rej2); thrown {
						rej2(v)
					}
				})
			}
		default:
			// not an object, or an object whose "then" is undefined (arrays, errors, settled records)
			m.fulfillPromise(p, resolution)
		}
		return mUndef, false
	}
	// 27.2.1.3.1 Promise Reject Functions
	reject = func(reason mval) (mval, bool) {
		if *alreadyResolved {
			return mUndef, false
		}
		*alreadyResolved = true
		m.rejectPromise(p, reason)
		return mUndef, false
	}
	return resolve, reject, alreadyResolved
}

// callThenable runs the probe "then" function of a thenable spec.
func (m *lmodel) callThenable(t *lthenable, res, rej mfunc) (mval, bool) {
	m.evL(t.id, mUndef)
	if t.throwAt == 1 {
		m.count("fault.thenable-throw")
		m.ev("B")
		return mInt(t.throwVal), true
	}
	for _, c := range t.calls {
		f := res
		if c.rej {
			f = rej
		}
		c := c
		if c.later < 0 {
			m.ev("B")
			f(m.evalVal(c.val))
		} else {
			m.setTimeout(c.later, -1, func() {
				m.ev("B")
				f(m.evalVal(c.val))
				m.ev("Z")
			})
		}
	}
	m.ev("B")
	if t.throwAt == 2 {
		m.count("fault.thenable-throw")
		return mInt(t.throwVal), true
	}
	return mUndef, false
}

// 27.2.1.4 FulfillPromise
func (m *lmodel) fulfillPromise(p *mprom, value mval) {
	reactions := p.fulfillReactions
	p.result = value
	p.fulfillReactions, p.rejectReactions = nil, nil
	p.state = psFulfilled
	m.triggerPromiseReactions(reactions, value)
}

// 27.2.1.7 RejectPromise
func (m *lmodel) rejectPromise(p *mprom, reason mval) {
	reactions := p.rejectReactions
	p.result = reason
	p.fulfillReactions, p.rejectReactions = nil, nil
	p.state = psRejected
	if !p.isHandled {
		m.hostTrack(p, false)
	}
	m.triggerPromiseReactions(reactions, reason)
}

// 27.2.1.8 TriggerPromiseReactions
func (m *lmodel) triggerPromiseReactions(reactions []*mreaction, argument mval) {
	for _, r := range reactions {
		m.enqueue(m.newPromiseReactionJob(r, argument))
	}
}

// 27.2.1.5 NewPromiseCapability(%Promise%)
func (m *lmodel) newPromiseCapability() *mcap {
	p := m.newPromise()
	res, rej, _ := m.createResolvingFunctions(p)
	return &mcap{promise: p, resolve: res, reject: rej}
}

// 27.2.2.1 NewPromiseReactionJob
func (m *lmodel) newPromiseReactionJob(reaction *mreaction, argument mval) func() {
	return func() {
		var result mval
		var abrupt bool
		if reaction.handler == nil {
			result, abrupt = argument, !reaction.fulfill
		} else {
			result, abrupt = reaction.handler(argument)
		}
		if reaction.capability == nil {
			return
		}
		if abrupt {
			reaction.capability.reject(result)
		} else {
			reaction.capability.resolve(result)
		}
	}
}

// 27.2.5.4.1 PerformPromiseThen
func (m *lmodel) performPromiseThen(p *mprom, onFulfilled, onRejected mfunc, capability *mcap) {
	fr := &mreaction{capability: capability, fulfill: true, handler: onFulfilled}
	rr := &mreaction{capability: capability, fulfill: false, handler: onRejected}
	switch p.state {
	case psPending:
		p.fulfillReactions = append(p.fulfillReactions, fr)
		p.rejectReactions = append(p.rejectReactions, rr)
	case psFulfilled:
		m.enqueue(m.newPromiseReactionJob(fr, p.result))
	default:
		if !p.isHandled {
			m.hostTrack(p, true)
		}
		m.enqueue(m.newPromiseReactionJob(rr, p.result))
	}
	p.isHandled = true
}

// 27.2.5.4 Promise.prototype.then (the species constructor is always %Promise%)
func (m *lmodel) promiseThen(p *mprom, onFulfilled, onRejected mfunc) *mprom {
	c := m.newPromiseCapability()
	m.performPromiseThen(p, onFulfilled, onRejected, c)
	return c.promise
}

// 27.2.4.7.1 PromiseResolve(%Promise%, x)
func (m *lmodel) promiseResolve(x mval) *mprom {
	if x.k == mvProm {
		return x.p // IsPromise(x) and x.constructor is %Promise%
	}
	c := m.newPromiseCapability()
	c.resolve(x)
	return c.promise
}

// 27.2.5.3 Promise.prototype.finally
func (m *lmodel) promiseFinally(p *mprom, onFinally mfunc) *mprom {
	if onFinally == nil {
		return m.promiseThen(p, nil, nil)
	}
	thenFinally := func(value mval) (mval, bool) {
		result, thrown := onFinally(mUndef)
		if thrown {
			return result, true
		}
		if result.k == mvProm || result.k == mvThen {
			m.count("finally-handler-returned-promise-or-thenable")
		}
		promise := m.promiseResolve(result)
		valueThunk := func(mval) (mval, bool) { return value, false }
		return mval{k: mvProm, p: m.promiseThen(promise, valueThunk, nil)}, false
	}
	catchFinally := func(reason mval) (mval, bool) {
		result, thrown := onFinally(mUndef)
		if thrown {
			return result, true
		}
		m.count("finally-on-rejected-promise")
		promise := m.promiseResolve(result)
		thrower := func(mval) (mval, bool) { return reason, true }
		return mval{k: mvProm, p: m.promiseThen(promise, thrower, nil)}, false
	}
	return m.promiseThen(p, thenFinally, catchFinally)
}

// 27.2.4.1 Promise.all, 27.2.4.2 allSettled, 27.2.4.3 any, 27.2.4.5 race
func (m *lmodel) combinator(kind int, items []mval) *mprom {
	c := m.newPromiseCapability()
	n := len(items)
	values := make([]mval, n)
	remaining := 1
	finish := func() {
		out := append([]mval(nil), values...)
		if kind == 3 {
			m.count("any-rejected-with-aggregate-error")
			c.reject(mval{k: mvAgg, arr: out})
		} else {
			c.resolve(mval{k: mvArr, arr: out})
		}
	}
	for i, it := range items {
		i := i
		if it.k == mvThen {
			m.count("combinator-with-thenable")
		}
		next := m.promiseResolve(it) // Call(promiseResolve, C, «nextValue»)
		switch kind {
		case 0: // all
			called := false
			onF := func(x mval) (mval, bool) {
				if called {
					return mUndef, false
				}
				called = true
				values[i] = x
				if remaining--; remaining == 0 {
					finish()
				}
				return mUndef, false
			}
			remaining++
			m.promiseThen(next, onF, c.reject)
		case 1: // allSettled
			called := false
			mk := func(st int) mfunc {
				return func(x mval) (mval, bool) {
					if called {
						return mUndef, false
					}
					called = true
					values[i] = mval{k: mvSettled, n: st, arr: []mval{x}}
					if remaining--; remaining == 0 {
						finish()
					}
					return mUndef, false
				}
			}
			remaining++
			m.promiseThen(next, mk(0), mk(1))
		case 2: // race
			m.promiseThen(next, c.resolve, c.reject)
		case 3: // any
			called := false
			onR := func(x mval) (mval, bool) {
				if called {
					return mUndef, false
				}
				called = true
				values[i] = x
				if remaining--; remaining == 0 {
					finish()
				}
				return mUndef, false
			}
			remaining++
			m.promiseThen(next, c.resolve, onR)
		}
	}
	if kind != 2 {
		if remaining--; remaining == 0 {
			finish()
		}
	}
	return c.promise
}

// ---- 27.7.5 async functions ----------------------------------------------------------------------------------

type lmact struct {
	fn    *lasync
	pc    int
	cap   *mcap
	depth int
	chain int
}

// 27.7.5.1 AsyncFunctionStart: the body runs synchronously up to its first await
func (m *lmodel) asyncCall(fn *lasync) *mprom {
	a := &lmact{fn: fn, cap: m.newPromiseCapability(), depth: m.asyncDepth, chain: 1000 + fn.idx}
	m.asyncDepth++
	m.evL(fn.id, mUndef)
	m.asyncRun(a)
	m.asyncDepth--
	return a.cap.promise
}

func (m *lmodel) asyncRun(a *lmact) {
	for a.pc < len(a.fn.body) {
		st := &a.fn.body[a.pc]
		switch st.kind {
		case asAwait, asTryAwait:
			m.ev("B")
			if a.depth > 0 || st.val.k == lvAsync {
				m.count("nested-await")
			}
			v := m.evalVal(st.val)
			m.await(a, v)
			return
		case asOp:
			m.execOp(st.op)
			a.pc++
		case asReturn:
			m.ev("B")
			v := m.evalVal(st.val)
			if v.k == mvProm {
				m.count("async-return-promise")
			}
			a.pc = len(a.fn.body)
			a.cap.resolve(v)
			return
		case asThrow:
			m.ev("B")
			v := m.evalVal(st.val)
			a.pc = len(a.fn.body)
			a.cap.reject(v)
			return
		}
	}
	m.ev("B")
	a.cap.resolve(mUndef)
}

// 27.7.5.3 Await
func (m *lmodel) await(a *lmact, v mval) {
	promise := m.promiseResolve(v)
	onFulfilled := func(x mval) (mval, bool) {
		m.noteChain(a.chain)
		m.asyncDepth = a.depth + 1
		m.evL(a.fn.body[a.pc].id, x)
		a.pc++
		m.asyncRun(a)
		m.asyncDepth = 0
		return mUndef, false
	}
	onRejected := func(x mval) (mval, bool) {
		m.noteChain(a.chain)
		m.asyncDepth = a.depth + 1
		st := &a.fn.body[a.pc]
		if st.kind == asTryAwait {
			m.count("await-rejection-caught")
			m.evL(st.idc, x)
			a.pc++
			m.asyncRun(a)
		} else {
			a.pc = len(a.fn.body)
			a.cap.reject(x) // the throw completion propagates out of the body
		}
		m.asyncDepth = 0
		return mUndef, false
	}
	m.performPromiseThen(promise, onFulfilled, onRejected, nil)
}

// ---- host natives of the simulated embedding -----------------------------------------------------------------

func (m *lmodel) setTimeout(ms, key int, fn func()) {
	m.timers = append(m.timers, &lmtimer{fn: fn})
	if key >= 0 {
		m.tkeys[key] = len(m.timers) - 1
	}
	m.ev(fmt.Sprintf("ST%d:%d", key, ms))
}

func (m *lmodel) goValue(v lval) mval {
	switch v.k {
	case lvInt:
		return mInt(v.n)
	case lvProm:
		if v.n < len(m.slots) && m.slots[v.n] != nil {
			return mval{k: mvProm, p: m.slots[v.n]}
		}
	}
	return mUndef
}

// goSettle: the Go-side resolve/reject function obtained from NewPromise is called.
func (m *lmodel) goSettle(g int, rej bool, v lval, nested bool) {
	if !m.gstarted[g] {
		return
	}
	if *m.glatch[g] {
		m.count("fault.resolver-called-twice")
	}
	if nested {
		m.count("fault.resolver-from-inside-native")
		if m.inDrain {
			m.count("fault.resolver-from-inside-job")
		}
	}
	if rej {
		m.grej[g](m.goValue(v))
	} else {
		m.gres[g](m.goValue(v))
	}
}

// nestedDrain is NOT part of the specification: it reproduces goja's runWrapped draining the queue when a native
// function that was called directly by a job (empty call stack) calls back into the runtime through a Callable.
func (m *lmodel) nestedDrain() {
	if m.deviant && m.entryCallable && m.inDrain {
		m.drain()
	}
}

// ---- interpretation of the program ---------------------------------------------------------------------------

func (m *lmodel) evalVal(v lval) mval {
	switch v.k {
	case lvInt:
		return mInt(v.n)
	case lvProm:
		if p := m.slots[v.n]; p != nil {
			return mval{k: mvProm, p: p}
		}
		return mUndef
	case lvThen:
		return mval{k: mvThen, n: v.n}
	case lvAsync:
		return mval{k: mvProm, p: m.asyncCall(m.prog.asyncs[v.n])}
	}
	return mUndef
}

func (m *lmodel) register(slot int, p *mprom, root int) {
	if p.name < 0 {
		p.name = slot
	}
	if p.root < 0 {
		p.root = root
	}
	m.slots[slot] = p
	m.ev("R" + strconv.Itoa(slot))
}

func (m *lmodel) jsFunc(id int, h *lhandler, chain int) mfunc {
	return func(x mval) (mval, bool) {
		m.noteChain(chain)
		m.evL(id, x)
		m.execOps(h.body)
		m.ev("B")
		switch h.ret {
		case retVal:
			return m.evalVal(h.val), false
		case retThrow:
			m.count("fault.handler-throw")
			return m.evalVal(h.val), true
		}
		return mUndef, false
	}
}

func (m *lmodel) mkHandler(h *lhandler, chain int) mfunc {
	if h == nil {
		return nil
	}
	switch h.kind {
	case hNH:
		inner := m.jsFunc(h.id2, h, chain)
		return func(x mval) (mval, bool) {
			m.ev("NH" + strconv.Itoa(h.id) + "(" + m.desc(x) + ")")
			v, thrown := inner(x)
			m.nestedDrain()
			return v, thrown
		}
	case hNS:
		return func(x mval) (mval, bool) {
			m.noteChain(chain)
			m.ev("NS" + strconv.Itoa(h.id) + "(" + m.desc(x) + ")")
			m.goSettle(h.g, h.rej, h.val, true)
			if m.gstarted[h.g] {
				m.nestedDrain()
			}
			return mUndef, false
		}
	}
	return m.jsFunc(h.id, h, chain)
}

func (m *lmodel) execOps(ops []*lop) {
	for _, o := range ops {
		m.execOp(o)
	}
}

func (m *lmodel) execOp(o *lop) {
	switch o.kind {
	case opNew: // 27.2.3.1 Promise(executor)
		m.ev("B")
		p := m.newPromise()
		res, rej, _ := m.createResolvingFunctions(p)
		thrown, tv := false, mUndef
		m.evL(o.id, mUndef)
	acts:
		for _, a := range o.exec {
			a := a
			f := res
			if a.rej {
				f = rej
			}
			switch a.kind {
			case actSettle:
				m.ev("B")
				f(m.evalVal(a.val))
			case actStash:
				m.stash[a.stash] = [2]mfunc{res, rej}
				m.ev("SS" + strconv.Itoa(a.stash))
			case actThrow:
				m.ev("B")
				thrown, tv = true, m.evalVal(a.val)
				break acts
			case actSettleLater:
				m.setTimeout(a.ms, -1, func() {
					m.ev("B")
					f(m.evalVal(a.val))
					m.ev("Z")
				})
			}
		}
		if thrown {
			rej(tv)
		} else {
			m.ev("B")
		}
		m.register(o.slot, p, o.slot)
	case opThen, opCatch, opFinally:
		t := m.slots[o.tgt]
		if t == nil {
			return
		}
		m.ev("B")
		if t.state != psPending {
			m.count("handlers-attached-after-settlement")
		}
		chain := t.root
		var q *mprom
		switch o.kind {
		case opThen:
			q = m.promiseThen(t, m.mkHandler(o.h1, chain), m.mkHandler(o.h2, chain))
		case opCatch: // 27.2.5.1: Invoke(promise, "then", «undefined, onRejected»)
			q = m.promiseThen(t, nil, m.mkHandler(o.h1, chain))
		default:
			q = m.promiseFinally(t, m.mkHandler(o.h1, chain))
		}
		m.register(o.slot, q, chain)
	case opPResolve: // 27.2.4.7
		m.ev("B")
		m.register(o.slot, m.promiseResolve(m.evalVal(o.val)), o.slot)
	case opPReject: // 27.2.4.6
		m.ev("B")
		c := m.newPromiseCapability()
		c.reject(m.evalVal(o.val))
		m.register(o.slot, c.promise, o.slot)
	case opComb:
		m.ev("B")
		items := make([]mval, len(o.items))
		for i, v := range o.items {
			items[i] = m.evalVal(v)
		}
		m.register(o.slot, m.combinator(o.comb, items), o.slot)
	case opCallStash:
		f := m.stash[o.stash][b2i(o.rej)]
		if f == nil {
			return
		}
		m.ev("B")
		f(m.evalVal(o.val))
	case opAsyncCall:
		m.ev("B")
		m.register(o.slot, m.asyncCall(m.prog.asyncs[o.fn]), o.slot)
	case opSetTimeout:
		m.setTimeout(o.ms, o.key, func() {
			m.execOps(o.body)
			m.execTail(o.tail)
		})
	case opClearTimeout:
		hit := 0
		if s := m.tkeys[o.key]; s >= 0 && !m.timers[s].fired && !m.timers[s].cancelled {
			m.timers[s].cancelled = true
			m.count("timer-cancelled")
			hit = 1
		}
		m.ev(fmt.Sprintf("CT%d:%d", o.key, hit))
	case opGoAsync:
		m.ev("B")
		p := m.newPromise()
		m.gres[o.g], m.grej[o.g], m.glatch[o.g] = m.createResolvingFunctions(p)
		m.gstarted[o.g] = true
		m.ev("GA" + strconv.Itoa(o.g))
		m.register(o.slot, p, o.slot)
	case opSettleNow:
		m.ev("SN" + strconv.Itoa(o.g))
		m.goSettle(o.g, o.rej, o.val, true)
	case opDeep:
		m.ev("D")
		if m.depthArmed {
			panic(&lmAbort{depth: true})
		}
	case opLog:
		m.evL(o.id, mUndef)
	}
}

// execTail ends the synchronous part of a client task or timer callback; m.thrown describes the value of the throw
// completion with which it ends ("" for a normal completion).
func (m *lmodel) execTail(t ltail) {
	switch t.kind {
	case tailNone:
		m.ev("Z")
	case tailThrow:
		m.ev("Z")
		m.thrown = m.desc(m.evalVal(t.val))
	case tailGetter:
		m.evL(t.id, mUndef)
		m.ev("Z")
		m.thrown = m.desc(m.evalVal(t.val))
	case tailTypeErr:
		m.ev("Z")
		m.thrown = "TypeError"
	case tailRefErr:
		m.ev("Z")
		m.thrown = "ReferenceError"
	case tailNewErr:
		m.ev("Z")
		m.thrown = "RangeError"
	}
}

// ---- macrotasks ----------------------------------------------------------------------------------------------

const (
	mtTask = iota
	mtTimer
	mtGoSettle
)

// runMacrotask performs one outermost call: the synchronous part, then the complete drain of the job queue.
// It returns what kind of abort (none, interrupt, depth limit) ended it and whether that happened inside a job.
func (m *lmodel) runMacrotask(kind, arg int, intent lgoIntent, callable bool, abortAt int, depthArmed bool) (aborted, depth, inJob bool) {
	m.thrown = ""
	m.events = m.events[:0:0]
	m.tracker = m.tracker[:0:0]
	m.abortAt, m.depthArmed, m.entryCallable = abortAt, depthArmed, callable
	m.inDrain, m.asyncDepth = false, 0
	m.chainSeq = m.chainSeq[:0]
	defer func() {
		if x := recover(); x != nil {
			ab, ok := x.(*lmAbort)
			if !ok {
				panic(x)
			}
			// 9.5: nothing in the specification runs a job after the agent was told to stop; the embedding contract of
			// goja (Runtime.Interrupt) says the queue is discarded.
			aborted, depth, inJob = true, ab.depth, m.inDrain
			m.queue = nil
			m.inDrain = false
		}
	}()
	switch kind {
	case mtTask:
		m.execOps(m.prog.tasks[arg])
		m.execTail(m.prog.tails[arg])
	case mtTimer:
		t := m.timers[arg]
		t.fired = true
		t.fn()
	case mtGoSettle:
		m.goSettle(arg, intent.rej, intent.val, false)
	}
	// A throw completion of the script / function does not touch the job queue (9.5, 16.1.6 ScriptEvaluation): the jobs
	// queued so far run before control is back in the host, exactly as after a normal completion.
	if m.thrown != "" {
		m.count("macrotask-ended-with-uncaught-exception")
		if len(m.queue) > 0 {
			m.count("macrotask-threw-with-jobs-pending")
		}
	}
	m.inDrain = true
	m.drain()
	m.inDrain = false
	if m.interleave {
		m.interleave = false
		m.count("two-chains-interleaved")
		m.count("nontrivial-drains")
	}
	return
}

func (m *lmodel) trackerLabels() []string {
	out := make([]string, 0, len(m.tracker))
	for _, t := range m.tracker {
		var l string
		if t.p.name >= 0 {
			l = "P" + strconv.Itoa(t.p.name)
		} else {
			k, ok := m.anon[t.p]
			if !ok {
				k = len(m.anon)
				m.anon[t.p] = k
			}
			l = "anon#" + strconv.Itoa(k)
		}
		if t.handle {
			out = append(out, "handle "+l)
		} else {
			out = append(out, "reject "+l)
		}
	}
	return out
}
