package engines

import (
	"errors"
	"fmt"
	"io"
	"os"
	"runtime/debug"
	"strings"

	"github.com/dop251/goja"

	"verif/sim/core"
)

// faultsim (E1): a history of outermost API calls on one real Runtime; a fault schedule places host-callback failures,
// interrupts and call-depth limits inside the calls; oracles are the idle-state invariant, equality of every unfaulted
// call with the fault-free run of the same history (= a fresh runtime that executed only the completed effects), and
// prefix-of-counterfactual for the uncatchable conditions.

const (
	KRunProgram = iota
	KCallable
	KConstructor
	KExportFunc
	KExportFuncNoErr
	KTryGet
	KTryForOf
	KNew
	nCallKinds
)

var callKindNames = [...]string{"RunProgram", "Callable", "Constructor", "ExportTo-func(error)", "ExportTo-func(panic)", "Try+Object.Get", "Try+ForOf", "New"}

func callDrains(k int) bool { return k <= KExportFuncNoErr }

type histCall struct {
	Kind    int
	Body    int
	NoFault bool // "clean" call: advances persistent suspended activations, never faulted
	// Src != "": RunProgram of this source text (global declarations), never faulted, judged against WantErr / WantRes
	// (absolute expectations from GlobalDeclarationInstantiation, which is all-or-nothing)
	Src, WantErr, WantRes string
}

// interruptBound is B of the prefix-of-counterfactual oracle: the property says "bounded", not "immediately".
const interruptBound = 100000

const (
	idleNone = iota
	idleIntr
	idleIntrCleared
	idleAsyncIntr        // the watchdog goroutine interrupts while the runtime is idle
	idleAsyncIntrCleared // ... and the owner calls ClearInterrupt before the next call
	// Interrupt() while idle, then the owner calls a native-only function (parseInt via a Callable: no script instruction
	// runs, so nothing polls the flag), then the call of the history. The interrupt must not get lost on the way: either
	// the native-only call already answers with the InterruptedError, or the next script-running call does.
	idleIntrNative
)

type callOutcome struct {
	log      []Event
	res      string
	err      string
	errObj   error
	panicV   interface{}
	state    goja.VerifState
	probes   int64
	ticks    int64
	maxDepth int

	nestedProblem string // a nested entry point (RunProgram/Callable/... called from a host native) did not restore the VM

	fired         bool
	firedTick     int64
	firedLog      int
	firedDesc     string
	firedInflight bool
	intrID        int

	preNative string // idleIntrNative: outcome of the native-only call made between Interrupt() and this call

	// the call returned while the interrupting goroutine was still suspended inside Interrupt() (before its lock
	// acquisition): Interrupt() was then completed and cleared by the host; the call itself must not have been interrupted
	lateSplit bool
}

type faultsim struct {
	prop  string
	tier  string
	async bool // interrupts are (also) raised by real second goroutines (C15; meaningful under -race)
}

func (e *faultsim) registerNatives(h *Host, bodies []genBody) {
	rt := h.rt
	ret := func(v goja.Value, err error, mode int) (goja.Value, error) {
		if err == nil {
			if v == nil {
				v = goja.Undefined()
			}
			return v, nil
		}
		switch mode {
		case 1:
			return nil, err
		case 2:
			return nil, fmt.Errorf("host: %w", err)
		case 3:
			// a sloppy host that drops the error of a nested call. For an interrupt that must not matter: the flag stays
			// set until the OUTERMOST call returns, so the script is interrupted again before its next instruction.
			var ie0 *goja.InterruptedError
			if errors.As(err, &ie0) {
				h.logSwallow++
				return goja.Undefined(), nil
			}
		}
		// mode 0: re-panic. Only goja's own error types may be panicked with as they are; an arbitrary Go error (e.g.
		// the one an ExportTo'd function hands back after unwrapping a GoError) must be wrapped, or it is a foreign panic.
		var ex *goja.Exception
		var ie *goja.InterruptedError
		var so *goja.StackOverflowError
		if errors.As(err, &ex) && err == error(ex) || errors.As(err, &ie) || errors.As(err, &so) {
			panic(err)
		}
		panic(rt.NewGoError(err))
	}
	// every nested entry point must hand the VM back exactly as it got it (stack lengths, registers), whatever the
	// nested call's outcome was: normal, exception, stack overflow or interrupt
	nest := func() func() {
		h.nestDepth++
		before := rt.VerifState()
		return func() {
			h.nestDepth--
			after := rt.VerifState()
			if before.CallStack != after.CallStack || before.TryStack != after.TryStack || before.IterStack != after.IterStack ||
				before.RefStack != after.RefStack || before.Sp != after.Sp || before.Sb != after.Sb || before.StashGlobal != after.StashGlobal || before.PrivEnvNil != after.PrivEnvNil {
				if h.nestedProblem == "" {
					h.nestedProblem = fmt.Sprintf("before: %s; after: %s", stateKey(before), stateKey(after))
				}
			}
		}
	}
	rt.Set("NR", func(k, mode int) (goja.Value, error) {
		defer nest()()
		p, _ := h.compile("nested", bodies[k].Name+"()")
		v, err := rt.RunProgram(p)
		return ret(v, err, mode)
	})
	rt.Set("NC", func(fn goja.Value, mode int) (goja.Value, error) {
		defer nest()()
		f, ok := goja.AssertFunction(fn)
		if !ok {
			panic("NC: not a function")
		}
		v, err := f(goja.Undefined())
		return ret(v, err, mode)
	})
	rt.Set("NF", func(fn goja.Value, mode int) (goja.Value, error) {
		defer nest()()
		var f func() (goja.Value, error)
		if err := rt.ExportTo(fn, &f); err != nil {
			panic("NF: " + err.Error())
		}
		v, err := f()
		return ret(v, err, mode)
	})
	rt.Set("NK", func(fn goja.Value, mode int) (goja.Value, error) {
		defer nest()()
		c, ok := goja.AssertConstructor(fn)
		if !ok {
			panic("NK: not a constructor")
		}
		v, err := c(nil)
		return ret(v, err, mode)
	})
	rt.Set("NO", func(iterable goja.Value, site, mode int) (goja.Value, error) {
		defer nest()()
		n := 0
		ex := rt.Try(func() {
			rt.ForOf(iterable, func(v goja.Value) bool {
				h.logEv("S", site, "")
				h.probeFault(site, false)
				n++
				return n < 2
			})
		})
		if ex != nil {
			return ret(nil, ex, mode)
		}
		return goja.Undefined(), nil
	})
	rt.Set("NG", func(o *goja.Object, key string) goja.Value {
		defer nest()()
		var v goja.Value
		if ex := rt.Try(func() { v = o.Get(key) }); ex != nil {
			panic(ex)
		}
		return v
	})
	rt.Set("NN", func(fn goja.Value) goja.Value {
		defer nest()()
		o, err := rt.New(fn)
		if err != nil {
			panic(err)
		}
		return o
	})
}

func isGojaError(err error) bool {
	var ex *goja.Exception
	var ie *goja.InterruptedError
	var so *goja.StackOverflowError
	return errors.As(err, &ex) || errors.As(err, &ie) || errors.As(err, &so)
}

func errDesc(err error) string {
	if err == nil {
		return ""
	}
	var ie *goja.InterruptedError
	if errors.As(err, &ie) {
		if p, ok := ie.Value().(*intrPayload); ok {
			return fmt.Sprintf("InterruptedError(payload %d)", p.id)
		}
		return fmt.Sprintf("InterruptedError(%v)", ie.Value())
	}
	var so *goja.StackOverflowError
	if errors.As(err, &so) {
		return "StackOverflowError"
	}
	var ex *goja.Exception
	if errors.As(err, &ex) {
		return "Exception: " + ex.String()
	}
	return fmt.Sprintf("%T: %v", err, err)
}

// doCall performs one outermost API call and records everything host-observable about it.
func (e *faultsim) doCall(h *Host, c histCall, bodies []genBody, iterSite int) (out callOutcome) {
	rt := h.rt
	h.ticks, h.probes, h.fired, h.maxDepth = 0, 0, false, 0
	start := len(h.log)
	name := bodies[c.Body].Name
	var v goja.Value
	var err error
	func() {
		defer func() {
			if x := recover(); x != nil {
				if ab, ok := x.(*abortRun); ok {
					panic(ab)
				}
				if er, ok := x.(error); ok && (c.Kind == KExportFuncNoErr || c.Kind == KTryGet || c.Kind == KTryForOf) && isGojaError(er) {
					err = er // these API shapes deliver errors by panicking
					return
				}
				if os.Getenv("VERIF_DEBUG") != "" {
					fmt.Fprintf(os.Stderr, "escaped panic: %v\n%s\n", x, debug.Stack())
				}
				out.panicV = x
			}
		}()
		switch c.Kind {
		case KRunProgram:
			src := name + "()"
			if c.Src != "" {
				src = c.Src
			}
			p, cerr := h.compile("call", src)
			if cerr != nil {
				panic(cerr.Error())
			}
			v, err = rt.RunProgram(p)
		case KCallable:
			f, _ := goja.AssertFunction(rt.Get(name))
			v, err = f(goja.Undefined())
		case KConstructor:
			f, _ := goja.AssertConstructor(rt.Get(name))
			var o *goja.Object
			o, err = f(nil)
			if o != nil {
				v = o
			}
		case KExportFunc:
			var f func() (goja.Value, error)
			if xerr := rt.ExportTo(rt.Get(name), &f); xerr != nil {
				panic(xerr.Error())
			}
			v, err = f()
		case KExportFuncNoErr:
			var f func() goja.Value
			if xerr := rt.ExportTo(rt.Get(name), &f); xerr != nil {
				panic(xerr.Error())
			}
			v = f()
		case KTryGet:
			o := rt.Get("O").ToObject(rt)
			if ex := rt.Try(func() { v = o.Get("g" + name) }); ex != nil {
				err = ex
			}
		case KTryForOf:
			mk, _ := goja.AssertFunction(rt.Get("iterOf"))
			it, ierr := mk(goja.Undefined(), rt.Get(name), rt.ToValue(iterSite))
			if ierr != nil {
				panic(ierr.Error())
			}
			n := 0
			if ex := rt.Try(func() {
				rt.ForOf(it, func(goja.Value) bool { n++; return n < 2 })
			}); ex != nil {
				err = ex
			}
		case KNew:
			var o *goja.Object
			o, err = rt.New(rt.Get(name))
			if o != nil {
				v = o
			}
		}
	}()
	h.resumeAt = 0
	if h.wd[0] != nil && h.wd[0].isParked() {
		h.wd[0].resume()
		rt.ClearInterrupt()
		out.lateSplit = true
	}
	out.log = append([]Event(nil), h.log[start:]...)
	out.res = describe(v)
	out.err = errDesc(err)
	out.errObj = err
	out.state = rt.VerifState()
	out.probes, out.ticks, out.maxDepth = h.probes, h.ticks, h.maxDepth
	out.nestedProblem, h.nestedProblem = h.nestedProblem, ""
	if h.fired {
		out.fired, out.firedTick, out.firedLog = true, h.firedTick, h.firedLog-start
		out.firedDesc = inflight(h.firedState, h.firedNest)
		fs := h.firedState
		out.firedInflight = fs.TryStack > 1 || fs.IterStack > 0 || fs.CallStack > 1 || h.firedNest > 0 || fs.JobQueue > 0 || !fs.AsyncRunnerNil
		if h.intrVal != nil {
			out.intrID = h.intrVal.id
		}
	}
	return
}

func idleProblems(s goja.VerifState, drains bool) []string {
	var p []string
	chk := func(ok bool, f string, a ...interface{}) {
		if !ok {
			p = append(p, fmt.Sprintf(f, a...))
		}
	}
	chk(s.CallStack == 0, "callStack=%d", s.CallStack)
	chk(s.TryStack == 0, "tryStack=%d", s.TryStack)
	chk(s.IterStack == 0, "iterStack=%d", s.IterStack)
	chk(s.RefStack == 0, "refStack=%d", s.RefStack)
	chk(s.Sp == 0, "sp=%d", s.Sp)
	chk(s.Sb == -1, "sb=%d", s.Sb)
	chk(s.PrgNil, "vm.prg still set (the last program would show up as a frame in later stack traces)")
	chk(s.StashGlobal, "scope chain is not the global scope")
	chk(s.PrivEnvNil, "private environment not cleared")
	chk(!s.Interrupted, "interrupt flag still set")
	chk(s.AsyncRunnerNil, "current async runner not cleared")
	chk(s.ToStringStack == 0, "toStringStack=%d", s.ToStringStack)
	if drains {
		chk(s.JobQueue == 0, "jobQueue=%d", s.JobQueue)
	}
	return p
}

func stateKey(s goja.VerifState) string {
	return fmt.Sprintf("cs=%d try=%d it=%d ref=%d sp=%d sb=%d glob=%v priv=%v jobs=%d intr=%v ar=%v ts=%d max=%d",
		s.CallStack, s.TryStack, s.IterStack, s.RefStack, s.Sp, s.Sb, s.StashGlobal, s.PrivEnvNil, s.JobQueue, s.Interrupted, s.AsyncRunnerNil, s.ToStringStack, s.MaxCallStackSize)
}

func inflight(s goja.VerifState, nest int) string {
	b := func(x bool, s string) string {
		if x {
			return s
		}
		return ""
	}
	depth := "d1"
	switch {
	case s.CallStack > 8:
		depth = "d9+"
	case s.CallStack > 3:
		depth = "d4-8"
	case s.CallStack > 1:
		depth = "d2-3"
	}
	return depth + b(s.TryStack > 1, "+try") + b(s.IterStack > 0, "+iter") + b(s.RefStack > 0, "+ref") + b(nest > 0, "+nested") + b(s.JobQueue > 0, "+jobs") + b(!s.AsyncRunnerNil, "+async") + b(!s.StashGlobal, "+scope")
}

const canarySrc = `
function canary() {
  var r = 0;
  r += (function(){ return typeof new.target === 'undefined' ? 0 : 100000; })();  // first: a stale new.target register would show here
  r += (function(){ return arguments.length; })() * 1000000;
  (function f(n){ if (n > 0) { try { f(n - 1); } finally { r++; } } })(40);
  L: for (var i = 0; i < 3; i++) { try { try { if (i == 1) continue L; r += P(900001); } finally { r += 2; } } finally { r += 3; } }
  for (const x of gen(900002, 3)) { if (x == 1) break; }
  var g = gen(900004, 2); g.next(); g.next(); g.next(); g.next();
  for (const y of mkIt(900006, 3)) { if (y == 1) break; }
  try { [...mkIt(900008, 2)].forEach(function(v){ if (v == 1) throw new Error('c'); }); } catch (e) { r += P(900010); }
  Promise.resolve(1).then(function(){ P(900011); return Promise.reject(2); }).catch(function(){ P(900012); }).finally(function(){ P(900013); });
  (async function(){ P(900014); await null; P(900015); await null; P(900016); })();
  // a job that enqueues several jobs while other jobs of its own batch are still waiting (job-queue buffers left over
  // from an aborted run must not be shared)
  Promise.resolve(1).then(function(){ P(900040); Promise.resolve().then(function(){ P(900041); }); Promise.resolve().then(function(){ P(900042); Promise.resolve().then(function(){ P(900045); }); }); Promise.resolve().then(function(){ P(900046); }); });
  Promise.resolve(2).then(function(){ P(900043); Promise.resolve().then(function(){ P(900047); }); });
  Promise.resolve(3).then(function(){ P(900044); });
  r += NR0();
  r += new Error('trace').stack.split('\n').length;
  return r;
}
// Persistent activations that stay suspended ACROSS calls (created by the setup call, advanced only by clean calls):
// resuming them rebases their saved stacks on the current VM stack lengths, which is where leaked records would bite.
var PG = [gen(800001, 4), (function*(){ try { for (const x of mkIt(800003, 5)) { P(800005); yield x; } } finally { P(800006); } })(), genPlain(800007, 3),
  (function*(){ var a = 0; while (a < 6) { try { a += (yield a) | 1; } finally { P(800009); } } })()];
PG[1].next(); PG[3].next();
function advancePG() { var r = []; for (var i = 0; i < PG.length; i++) { var x = PG[i].next(i); r.push(x.value, x.done); } return r.join(); }
function canaryThrow() { try { throw new RangeError('thrown by canary'); } finally { P(900020); } }
function canaryNested() { var r = 0; try { r += P(900030); } finally { r += P(900031); } return r; }
`

func (e *faultsim) Run(t *core.Tape, want bool) *core.Result {
	res := &core.Result{}
	W, S := &t.W, &t.S

	// ---- workload ------------------------------------------------------------------------------------------------
	nb := 1 + W.Draw(3)
	bodies, siteCtx, lastSite := genBodies(W, nb, 4, 30, 0, false, false)
	iterSite := lastSite + 1
	var setup strings.Builder
	setup.WriteString(helperSrc)
	setup.WriteString(canarySrc)
	for _, b := range bodies {
		setup.WriteString(b.Src)
	}
	setup.WriteString("var O = {")
	for _, b := range bodies {
		fmt.Fprintf(&setup, " get g%s(){ return %s(); },", b.Name, b.Name)
	}
	setup.WriteString(" };\n")
	ncalls := 1 + W.Draw(5)
	var hist []histCall
	for i := 0; i < ncalls; i++ {
		c := histCall{Kind: W.Draw(nCallKinds), Body: W.Draw(nb)}
		if e.prop == "C15" && !callDrains(c.Kind) {
			c.Kind = c.Kind % (KExportFuncNoErr + 1) // interrupts are delivered to script-running entry points only
		}
		if !callDrains(c.Kind) && bodies[c.Body].UsesJob {
			c.Kind = KRunProgram
		}
		hist = append(hist, c)
		if W.Draw(4) == 3 {
			hist = append(hist, histCall{Kind: W.Draw(2), Body: -1, NoFault: true}) // advancePG(), via RunProgram or Callable
		}
	}
	// canary calls at the end (never faulted): bodies appended so that doCall can address them
	canaryBase := len(bodies)
	allBodies := append(append([]genBody(nil), bodies...), genBody{Name: "canary"}, genBody{Name: "canaryThrow"}, genBody{Name: "advancePG"})
	for i := range hist {
		if hist[i].Body < 0 {
			hist[i].Body = canaryBase + 2
		}
	}
	var faultable []int
	for i, c := range hist {
		if !c.NoFault {
			faultable = append(faultable, i)
		}
	}
	hist = append(hist, histCall{Kind: KRunProgram, Body: canaryBase + 2, NoFault: true}, histCall{Kind: KRunProgram, Body: canaryBase}, histCall{Kind: KCallable, Body: canaryBase + 1}, histCall{Kind: KCallable, Body: canaryBase})
	// global declarations: a script that is rejected when its declarations are instantiated (a name collides with an
	// earlier declaration) must leave none of its own bindings behind
	{
		lex := []string{"let", "const", "class"}
		mk := func(kind, name string) string {
			switch kind {
			case "class":
				return "class " + name + " {}"
			case "function":
				return "function " + name + "(){}"
			case "var":
				return "var " + name + " = 1"
			}
			return kind + " " + name + " = 1"
		}
		firstKind := []string{"let", "const", "class", "var", "function"}[W.Draw(5)]
		var conflict string // a declaration kind that collides with firstKind
		if firstKind == "var" || firstKind == "function" {
			conflict = lex[W.Draw(3)]
		} else {
			conflict = []string{"let", "const", "class", "var", "function"}[W.Draw(5)]
		}
		var decls, names []string
		for i, n := 0, 1+W.Draw(3); i < n; i++ {
			nm := fmt.Sprintf("gd%d", i)
			names = append(names, nm)
			decls = append(decls, mk(lex[W.Draw(3)], nm))
		}
		// the colliding declaration goes first, last or in the middle of the script text
		pos := W.Draw(len(decls) + 1)
		decls = append(decls[:pos:pos], append([]string{mk(conflict, "gdup")}, decls[pos:]...)...)
		var typeofs, redecl []string
		for _, nm := range names {
			typeofs = append(typeofs, "typeof "+nm)
			redecl = append(redecl, "let "+nm+" = 7")
		}
		hist = append(hist,
			histCall{Kind: KRunProgram, Body: canaryBase, NoFault: true, Src: mk(firstKind, "gdup") + "; 0"},
			histCall{Kind: KRunProgram, Body: canaryBase, NoFault: true, Src: strings.Join(decls, "; ") + "; 0", WantErr: "SyntaxError"},
			histCall{Kind: KRunProgram, Body: canaryBase, NoFault: true, Src: "[" + strings.Join(typeofs, ", ") + "].join()", WantRes: "string:" + strings.TrimSuffix(strings.Repeat("undefined,", len(names)), ",")},
			histCall{Kind: KRunProgram, Body: canaryBase, NoFault: true, Src: strings.Join(redecl, "; ") + "; " + names[0], WantRes: "int64:7"})
	}
	nfaultable := len(faultable)

	// buggify: in a third of the runs every growth of the VM value stack moves it to a fresh backing array (stale
	// aliases of vm.stack held across a call would otherwise only be visible at power-of-two depths)
	if W.Draw(3) == 2 {
		goja.VerifForceStackRealloc = func() bool { return true }
		defer func() { goja.VerifForceStackRealloc = nil }()
		res.Count("buggify-stack-realloc-runs", 1)
	}

	// in an eighth of the runs the (process-wide) sampling profiler is active: the VM then executes in a different
	// instruction loop (runWithProfiler), which has its own poll of the interrupt flag
	profiled := false
	if W.Draw(8) == 7 {
		if err := goja.StartProfile(io.Discard); err == nil {
			profiled = true
			defer goja.StopProfile()
			res.Count("runs-with-active-profiler", 1)
		}
	}
	_ = profiled

	render := func(plan map[int]*Fault, idle map[int]int) string {
		var sb strings.Builder
		sb.WriteString("// setup (call 0), then history:\n")
		for i, c := range hist {
			if c.Src != "" {
				fmt.Fprintf(&sb, "//   call#%d RunProgram of `%s`", i, c.Src)
			} else {
				fmt.Fprintf(&sb, "//   call#%d %s %s()", i, callKindNames[c.Kind], allBodies[c.Body].Name)
			}
			switch idle[i] {
			case idleIntr:
				sb.WriteString("   [Interrupt() while idle before this call]")
			case idleIntrCleared:
				sb.WriteString("   [Interrupt() then ClearInterrupt() while idle before this call]")
			case idleAsyncIntr:
				sb.WriteString("   [Interrupt() from the watchdog goroutine while idle before this call]")
			case idleAsyncIntrCleared:
				sb.WriteString("   [Interrupt() from the watchdog goroutine, then ClearInterrupt(), while idle before this call]")
			case idleIntrNative:
				sb.WriteString("   [Interrupt() while idle, then a Callable of the native parseInt, before this call]")
			}
			if f := plan[i]; f != nil {
				fmt.Fprintf(&sb, "   FAULT %s", f)
			}
			sb.WriteString("\n")
		}
		for _, b := range bodies {
			sb.WriteString(b.Src)
		}
		return sb.String()
	}

	var runHistoryFrom func(only int, plan map[int]*Fault, idle map[int]int) (outs []callOutcome, h *Host, aborted string)
	runHistory := func(plan map[int]*Fault, idle map[int]int) (outs []callOutcome, h *Host, aborted string) {
		return runHistoryFrom(-1, plan, idle)
	}
	runHistoryFrom = func(only int, plan map[int]*Fault, idle map[int]int) (outs []callOutcome, h *Host, aborted string) {
		h = NewHost(400000)
		curHost = h
		defer func() { curHost = nil }()
		defer func() {
			if x := recover(); x != nil {
				if ab, ok := x.(*abortRun); ok {
					aborted = ab.why
					return
				}
				panic(x)
			}
		}()
		if e.async {
			h.startWatchdogs()
			defer h.stopWatchdogs()
		}
		e.registerNatives(h, allBodies)
		h.rt.Set("NR0", func() goja.Value {
			p, _ := h.compile("nested", "canaryNested()")
			v, err := h.rt.RunProgram(p)
			if err != nil {
				panic(err)
			}
			return v
		})
		if _, err := h.rt.RunScript("setup", setup.String()); err != nil {
			aborted = "setup failed: " + err.Error()
			return
		}
		h.log = h.log[:0]
		for i, c := range hist {
			if only >= 0 && i != only {
				continue
			}
			f := plan[i]
			h.fault = f
			switch idle[i] {
			case idleIntr, idleIntrCleared:
				h.intrVal = &intrPayload{id: -i - 1}
				h.rt.Interrupt(h.intrVal)
				if idle[i] == idleIntrCleared {
					h.rt.ClearInterrupt()
				}
			case idleAsyncIntr, idleAsyncIntrCleared:
				h.wd[0].release()
				if idle[i] == idleAsyncIntrCleared {
					h.rt.ClearInterrupt()
				}
			}
			preNative := ""
			if idle[i] == idleIntrNative {
				h.intrVal = &intrPayload{id: -i - 1}
				h.rt.Interrupt(h.intrVal)
				pi, _ := goja.AssertFunction(h.rt.Get("parseInt"))
				v, err := pi(goja.Undefined(), h.rt.ToValue("42"))
				var ie *goja.InterruptedError
				switch {
				case err == nil && v != nil && v.ToInteger() == 42:
					preNative = "normal"
				case errors.As(err, &ie):
					if got, ok := ie.Value().(*intrPayload); ok && got.id == -i-1 {
						preNative = "interrupted"
					} else {
						preNative = fmt.Sprintf("InterruptedError with the wrong value %v", ie.Value())
					}
				default:
					preNative = fmt.Sprintf("result %v, error %v", v, err)
				}
			}
			if f != nil && f.Kind == FDepth {
				h.rt.SetMaxCallStackSize(f.Limit)
			}
			o := e.doCall(h, c, allBodies, iterSite)
			o.preNative = preNative
			if f != nil && f.Kind == FDepth {
				h.rt.SetMaxCallStackSize(1<<31 - 1)
				o.state.MaxCallStackSize = 1<<31 - 1
			}
			outs = append(outs, o)
			if o.panicV != nil {
				break // a foreign panic went through the runtime: it is not required to be reusable
			}
		}
		res.Steps += h.totalStep
		if h.logSwallow > 0 && plan != nil {
			res.Count("host-swallowed-nested-interrupt", int64(h.logSwallow))
		}
		return
	}

	// ---- counterfactual: same history, no fault ------------------------------------------------------------------
	cf, _, ab := runHistory(nil, nil)
	if ab != "" {
		res.OutOfScope = "fault-free run: " + ab
		return res
	}
	for i, o := range cf {
		if o.panicV != nil {
			res.OutOfScope = fmt.Sprintf("fault-free run panicked in call#%d: %v", i, o.panicV)
			if os.Getenv("VERIF_DEBUG") != "" {
				fmt.Fprintln(os.Stderr, render(nil, nil))
			}
			return res
		}
	}
	declProblem := func(c histCall, o callOutcome) string {
		if c.WantErr != "" && !strings.Contains(o.err, c.WantErr) {
			return fmt.Sprintf("the script must be rejected with a %s when its global declarations are instantiated; got result=%s err=%s", c.WantErr, o.res, core.Trunc(o.err, 200))
		}
		if c.WantRes != "" && (o.res != c.WantRes || o.err != "") {
			return fmt.Sprintf("after a script was rejected at global declaration instantiation none of its bindings may exist: want result=%s, got result=%s err=%s", c.WantRes, o.res, core.Trunc(o.err, 200))
		}
		return ""
	}
	for i, o := range cf {
		if msg := declProblem(hist[i], o); msg != "" {
			res.Fail("global-declaration-atomicity", "global-declaration-atomicity no-fault", fmt.Sprintf("fault-free call#%d: %s", i, msg), render(nil, nil))
			return res
		}
	}
	for i, o := range cf {
		if p := idleProblems(o.state, callDrains(hist[i].Kind)); len(p) > 0 {
			res.Fail("idle-invariant/fault-free", "no-fault "+callKindNames[hist[i].Kind], fmt.Sprintf("after fault-free call#%d (%s) the runtime is not idle-clean: %s", i, callKindNames[hist[i].Kind], strings.Join(p, ", ")), render(nil, nil))
			return res
		}
	}

	// ---- fault plan ----------------------------------------------------------------------------------------------
	var kinds []int
	switch e.prop {
	case "C15":
		kinds = []int{FIntr, FTickIntr, FAsyncIntr, FAsyncIntr, FAsyncIntr}
	default:
		// swarm: a random non-empty subset of kinds per run
		all := []int{FThrowPrim, FThrowErr, FThrowExc, FGoErr, FIntr, FTickIntr, FDepth, FForeign}
		for _, k := range all {
			if S.Draw(2) == 1 {
				kinds = append(kinds, k)
			}
		}
		if len(kinds) == 0 {
			kinds = []int{all[S.Draw(len(all))]}
		}
	}
	plan := map[int]*Fault{}
	idle := map[int]int{}
	nf := 1 + S.Draw(2)
	for j := 0; j < nf; j++ {
		ci := faultable[S.Draw(nfaultable)]
		if plan[ci] != nil || idle[ci] != 0 {
			continue
		}
		// interrupt-while-idle scenarios (C15, C03)
		if callDrains(hist[ci].Kind) && S.Draw(12) == 11 {
			idle[ci] = idleIntr + S.Draw(2)
			if e.async && S.Draw(2) == 1 {
				idle[ci] += 2
			} else if S.Draw(3) == 2 {
				idle[ci] = idleIntrNative
			}
			continue
		}
		k := kinds[S.Draw(len(kinds))]
		f := &Fault{Kind: k, Call: ci}
		if f.Uncatchable() && !callDrains(hist[ci].Kind) {
			// Try/ForOf/Get/New at the outermost level are not script-running entry points: catchable faults only
			f.Kind = FThrowErr
		}
		switch f.Kind {
		case FDepth:
			// every limit 0..64, biased to the depths this call actually reaches (a limit above them never fires)
			f.Limit = S.Draw(65)
			if S.Draw(4) != 0 {
				f.Limit = S.Draw(min(65, cf[ci].maxDepth+2))
			}
		case FTickIntr, FAsyncIntr:
			if cf[ci].ticks == 0 {
				continue
			}
			f.At = int64(S.Draw(int(cf[ci].ticks)))
			if f.Kind == FAsyncIntr && S.Draw(6) == 5 {
				f.Limit = 1 // two watchdogs, one right after the other: the error must carry the last value
			}
			if f.Kind == FAsyncIntr && S.Draw(3) == 0 {
				f.Split = 1 + S.Draw(40) // (instrumented build) the interrupting goroutine loses the CPU inside Interrupt()
				f.Limit = 0
			}
		default:
			if cf[ci].probes == 0 {
				continue
			}
			f.At = int64(S.Draw(int(cf[ci].probes)))
		}
		plan[ci] = f
	}

	// ---- faulted run ---------------------------------------------------------------------------------------------
	fo, fh, ab := runHistory(plan, idle)
	detail := func(i int, extra string) string {
		var sb strings.Builder
		sb.WriteString(render(plan, idle))
		fmt.Fprintf(&sb, "---- call#%d fault-free : result=%s err=%s\n  log: %s\n  state: %s\n", i, cf[i].res, core.Trunc(cf[i].err, 600), renderLog(cf[i].log), stateKey(cf[i].state))
		if i < len(fo) {
			fmt.Fprintf(&sb, "---- call#%d with faults: result=%s err=%s\n  log: %s\n  state: %s\n", i, fo[i].res, core.Trunc(fo[i].err, 600), renderLog(fo[i].log), stateKey(fo[i].state))
		}
		sb.WriteString(extra)
		return sb.String()
	}
	if ab != "" {
		// the fault-free run of the same history finished within budget; not terminating under a fault is a violation
		i := len(fo)
		sig := "nontermination"
		if f := plan[i]; f != nil {
			sig += " " + faultNames[f.Kind]
		}
		res.Fail("nontermination", sig, fmt.Sprintf("call#%d did not finish within the step budget under the fault schedule (%s)", i, ab), render(plan, idle))
		return res
	}

	nontrivial := false
	var sigParts []string
	for i := range fo {
		o, c, f := fo[i], hist[i], plan[i]
		kindName := callKindNames[c.Kind]
		fsig := "unfaulted"
		if f != nil {
			fsig = faultNames[f.Kind]
		} else if idle[i] != 0 {
			fsig = "idle-intr"
		}
		where := ""
		if o.fired && o.firedLog > 0 && o.firedLog <= len(o.log) {
			where = siteCtx[o.log[o.firedLog-1].Site]
		}
		fail := func(rule, msg string) {
			res.Fail(rule, fmt.Sprintf("%s %s %s at[%s] %s", rule, fsig, kindName, where, o.firedDesc), fmt.Sprintf("call#%d (%s, fault %s): %s", i, kindName, fsig, msg), detail(i, ""))
		}

		// a foreign panic must arrive untouched; afterwards the runtime is not required to be reusable
		if f != nil && f.Kind == FForeign && o.fired {
			res.Count("fault.foreign", 1)
			if fp, ok := o.panicV.(foreignPanic); !ok || fp.site == 0 {
				fail("foreign-panic-identity", fmt.Sprintf("a non-goja panic raised in a native function reached the host as %T %v (result=%s err=%s)", o.panicV, o.panicV, o.res, core.Trunc(o.err, 300)))
			}
			nontrivial = true
			break
		}
		if o.panicV != nil {
			if f != nil && o.fired && !f.Uncatchable() {
				// After a catchable fault the script's own catch/finally code runs, code the fault-free run never
				// reached. A Go panic there may be an ordinary engine crash on that code (C01's matter, not this
				// property's). It is this property's matter only if it depends on the history: re-run the single call
				// with the same fault on a fresh runtime and compare.
				solo, _, _ := runHistoryFrom(i, plan, idle)
				if len(solo) == 1 && solo[0].panicV != nil && fmt.Sprint(solo[0].panicV) == fmt.Sprint(o.panicV) {
					res.OutOfScope = fmt.Sprintf("engine crash independent of history in code reached only after a catchable fault: %v", o.panicV)
					return res
				}
			}
			fail("unexpected-panic", fmt.Sprintf("Go panic escaped to the host: %T %v", o.panicV, o.panicV))
			break
		}

		if o.nestedProblem != "" {
			fail("nested-return-invariant", "a nested call into the runtime (from a host native) did not hand the VM back as it got it: "+o.nestedProblem)
			break
		}
		// idle-state invariant after every outermost return
		if p := idleProblems(o.state, callDrains(c.Kind)); len(p) > 0 {
			fail("idle-invariant", "runtime not idle-clean after the call returned: "+strings.Join(p, ", "))
			break
		}

		if idle[i] == idleIntrNative && o.preNative != "normal" && o.preNative != "interrupted" {
			fail("idle-interrupt-native-call", "Interrupt() while idle followed by a Callable of the native parseInt(\"42\"): "+o.preNative)
			break
		}
		uncatchable, wantIntr := false, 0
		lateBad := false
		switch {
		case idle[i] == idleIntr:
			uncatchable, wantIntr = true, -i-1
			res.Count("fault.idle-intr", 1)
		case idle[i] == idleIntrCleared:
			res.Count("fault.idle-intr-then-clear", 1)
		case idle[i] == idleAsyncIntr:
			uncatchable, wantIntr = true, 7000
			res.Count("fault.idle-async-intr", 1)
		case idle[i] == idleAsyncIntrCleared:
			res.Count("fault.idle-async-intr-then-clear", 1)
		case idle[i] == idleIntrNative:
			res.Count("fault.idle-intr-then-native-only-call", 1)
			if o.preNative == "normal" {
				uncatchable, wantIntr = true, -i-1
			}
		case f != nil && f.Kind == FDepth:
			var so *goja.StackOverflowError
			if errors.As(o.errObj, &so) {
				uncatchable = true
				res.Count("fault.depth", 1)
			} else {
				res.Count("depth-limit-not-reached", 1)
			}
		case f != nil && o.fired && o.lateSplit:
			// the call ended before the suspended Interrupt() got as far as raising the flag
			res.Count("interrupt-completed-after-the-call-returned", 1)
			var ie *goja.InterruptedError
			if errors.As(o.errObj, &ie) {
				fail("interrupt-before-raise", fmt.Sprintf("the call returned an InterruptedError (value %v) although the interrupting goroutine was still suspended inside Interrupt(), before it had taken the lock", ie.Value()))
				lateBad = true
			}
		case f != nil && o.fired:
			res.Count("fault."+faultNames[f.Kind], 1)
			if f.Split > 0 && syncPointsBuilt {
				res.Count("interrupting-goroutine-descheduled-inside-Interrupt", 1)
			}
			if f.Uncatchable() {
				uncatchable, wantIntr = true, o.intrID
			}
		case f != nil:
			res.Count("fault-position-not-reached", 1)
		}
		if lateBad {
			break
		}
		if o.fired || uncatchable {
			sigParts = append(sigParts, fmt.Sprintf("%s/%s/%s/%s", fsig, kindName, where, o.firedDesc))
			if o.fired && o.firedInflight {
				nontrivial = true
				res.Count("fired-with-inflight-state", 1)
			}
		}

		if uncatchable {
			// (1) the documented error, carrying exactly the value given to Interrupt
			if f == nil || f.Kind != FDepth {
				var ie *goja.InterruptedError
				if !errors.As(o.errObj, &ie) {
					fail("interrupt-error", fmt.Sprintf("expected *InterruptedError, the call returned result=%s err=%s", o.res, core.Trunc(o.err, 300)))
					break
				}
				if got, ok := ie.Value().(*intrPayload); !ok || got.id != wantIntr {
					fail("interrupt-value", fmt.Sprintf("InterruptedError carries %v, want payload %d", ie.Value(), wantIntr))
					break
				}
			}
			// (2) prefix of the counterfactual: nothing ran because of the unwinding
			if d := prefixDivergence(o.log, cf[i].log); d >= 0 {
				ctx := siteCtx[o.log[d].Site]
				res.Fail("prefix-of-counterfactual", fmt.Sprintf("prefix-of-counterfactual %s %s at[%s] extra[%s]", fsig, kindName, where, ctx),
					fmt.Sprintf("call#%d (%s, fault %s): script-visible code ran because of an uncatchable condition: event #%d %s is not what the fault-free run does at that point (%s)", i, kindName, fsig, d, evAt(o.log, d), evAt(cf[i].log, d)), detail(i, ""))
				break
			}
			// (3) bounded number of instructions after the raise
			after := o.ticks
			if o.fired {
				after = o.ticks - o.firedTick
			}
			if f == nil || f.Kind != FDepth {
				if after > interruptBound {
					fail("interrupt-bound", fmt.Sprintf("%d VM instructions ran after Interrupt()", after))
					break
				}
			}
			continue
		}
		if f != nil && o.fired && !o.lateSplit {
			// catchable fault: up to the fault both runs are the same execution; the continuation is the script's own
			// catch/finally logic (judged by ctlsim); only the invariant and the later calls are judged here.
			if d := prefixDivergence(o.log[:o.firedLog], cf[i].log); d >= 0 {
				fail("nondeterminism", fmt.Sprintf("the run diverged from the fault-free run before the fault fired (event #%d)", d))
				break
			}
			continue
		}
		// unfaulted call (or fault not reached): must be indistinguishable from the fault-free history
		if d := logDivergence(o.log, cf[i].log); d >= 0 {
			fail("later-call-differs", fmt.Sprintf("event log differs from the fault-free history at event #%d: got %s, want %s", d, evAt(o.log, d), evAt(cf[i].log, d)))
			break
		}
		if o.res != cf[i].res || o.err != cf[i].err {
			fail("later-call-differs", fmt.Sprintf("outcome differs from the fault-free history: got result=%s err=%s, want result=%s err=%s", o.res, core.Trunc(o.err, 400), cf[i].res, core.Trunc(cf[i].err, 400)))
			break
		}
		if stateKey(o.state) != stateKey(cf[i].state) {
			fail("later-call-differs", fmt.Sprintf("engine state differs from the fault-free history: got %s, want %s", stateKey(o.state), stateKey(cf[i].state)))
			break
		}
	}
	_ = fh

	// signature: what was explored
	res.Sig = strings.Join(sigParts, ";")
	res.NonTrivial = nontrivial
	var dl []string
	for i := range fo {
		dl = append(dl, fmt.Sprintf("%d|%s|%s|%s|%s", i, renderLog(fo[i].log), fo[i].res, fo[i].err, stateKey(fo[i].state)))
	}
	res.Digest = core.DigestLines(dl)
	if want {
		var sb strings.Builder
		sb.WriteString(render(plan, idle))
		for i := range fo {
			fmt.Fprintf(&sb, "call#%d -> result=%s err=%s log: %s\n", i, fo[i].res, core.Trunc(fo[i].err, 200), core.Trunc(renderLog(fo[i].log), 400))
		}
		res.Sample = sb.String()
	}
	return res
}

func evAt(l []Event, i int) string {
	if i < len(l) {
		return l[i].String()
	}
	return "<end of log>"
}

// prefixDivergence returns -1 if got is a prefix of want, else the first index where it is not.
func prefixDivergence(got, want []Event) int {
	for i := range got {
		if i >= len(want) || !got[i].Same(want[i]) {
			return i
		}
	}
	return -1
}

func logDivergence(got, want []Event) int {
	if d := prefixDivergence(got, want); d >= 0 {
		return d
	}
	if len(got) != len(want) {
		return len(got)
	}
	return -1
}
