package engines

import (
	"encoding/json"
	"fmt"
	"strings"

	"verif/sim/core"
)

// jsgen builds JavaScript bodies by composing "contexts" (the places the properties name: try/finally, loops,
// iterator-consuming built-ins, callbacks, coercions, proxies, classes, generators, async functions, native re-entry)
// around probe statements. Everything is drawn from the workload track.
//
// Confinement rule: a body never assigns to a global or to anything that outlives the call; all its declarations live
// inside the body function. So the JS heap reachable from the global object is the same after every call, whatever
// happened in it, and any later behavioural difference is leaked engine state.
type jsgen struct {
	t        *core.Track
	site     int
	uniq     int
	budget   int
	usesJob  bool
	ctxUsed  map[string]int
	bodyIdx  int  // index of the body being generated (may nest bodies with smaller index)
	noNest   bool // do not generate native re-entry contexts
	noAsync  bool
	strict   bool // generating inside strict code (class bodies): no 'with'
	prev     []genBody
	ctxStack []string
	siteCtx  map[int]string
}

func (g *jsgen) withStrict(v bool, f func() string) string {
	old := g.strict
	g.strict = v
	defer func() { g.strict = old }()
	return f()
}

func (g *jsgen) ns() int {
	g.site++
	if g.siteCtx != nil {
		g.siteCtx[g.site] = strings.Join(g.ctxStack, ">")
	}
	return g.site
}
func (g *jsgen) id(p string) string {
	g.uniq++
	return fmt.Sprintf("%s%d", p, g.uniq)
}
func (g *jsgen) use(name string) {
	g.ctxUsed[name]++
	g.ctxStack = append(g.ctxStack, name)
}

// probe expression
func (g *jsgen) p() string {
	if g.t.Draw(5) == 4 {
		return fmt.Sprintf("Q(%d)", g.ns())
	}
	return fmt.Sprintf("P(%d)", g.ns())
}

func jsq(s string) string { b, _ := json.Marshal(s); return string(b) }

// blk: 1..3 statements at depth d
func (g *jsgen) blk(d int) string {
	n := 1 + g.t.Draw(3)
	var sb strings.Builder
	for i := 0; i < n; i++ {
		sb.WriteString(g.stmt(d))
		sb.WriteByte('\n')
	}
	return sb.String()
}

// fn: an anonymous function expression whose body is a block, returning ret
func (g *jsgen) fn(d int, params, ret string) string {
	return fmt.Sprintf("function(%s){ %s return %s; }", params, g.blk(d), ret)
}

const nStmtKinds = 53

func (g *jsgen) stmt(d int) string {
	l0 := len(g.ctxStack)
	defer func() { g.ctxStack = g.ctxStack[:l0] }()
	g.budget--
	if d <= 0 || g.budget <= 0 {
		return fmt.Sprintf("r += %s;", g.p())
	}
	d--
	k := g.t.Draw(nStmtKinds + 6) // the last few slots are plain probes: keeps bodies small
	if k >= nStmtKinds {
		return fmt.Sprintf("r += %s;", g.p())
	}
	if k >= 34 {
		return g.stmt2(k, d)
	}
	switch k {
	case 0:
		g.use("try-catch-finally")
		return fmt.Sprintf("try { %s } catch (%s) { r += %s; } finally { r += %s; }", g.blk(d), g.id("e"), g.p(), g.p())
	case 1:
		g.use("try-finally")
		return fmt.Sprintf("try { %s } finally { r += %s; %s }", g.blk(d), g.p(), g.stmt(d))
	case 2:
		g.use("try-catch")
		return fmt.Sprintf("try { %s } catch (%s) { r += %s; %s }", g.blk(d), g.id("e"), g.p(), g.stmt(d))
	case 3:
		g.use("for")
		i := g.id("i")
		return fmt.Sprintf("for (var %s = 0; %s < %d; %s++) { %s }", i, i, 1+g.t.Draw(3), i, g.blk(d))
	case 4:
		g.use("for-let-closure")
		i, f := g.id("i"), g.id("f")
		return fmt.Sprintf("{ var %s = []; for (let %s = 0; %s < %d; %s++) { %s.push(function(){ return %s; }); %s } r += %s[0](); }", f, i, i, 1+g.t.Draw(2), i, f, i, g.blk(d), f)
	case 5:
		g.use("while")
		i := g.id("w")
		return fmt.Sprintf("{ var %s = 0; while (%s++ < %d) { %s } }", i, i, 1+g.t.Draw(2), g.blk(d))
	case 6:
		g.use("do-while")
		i := g.id("w")
		return fmt.Sprintf("{ var %s = 0; do { %s } while (++%s < %d); }", i, g.blk(d), i, 1+g.t.Draw(2))
	case 7:
		g.use("for-in")
		return fmt.Sprintf("for (var %s in {a:1, b:2}) { %s }", g.id("k"), g.blk(d))
	case 8:
		g.use("for-of-array")
		return fmt.Sprintf("for (const %s of [1, 2]) { %s }", g.id("x"), g.blk(d))
	case 9:
		g.use("for-of-jsiter")
		x := g.id("x")
		s := g.ns()
		g.ns()
		brk := ""
		if g.t.Draw(2) == 1 {
			brk = fmt.Sprintf("if (%s === 1) break;", x)
		}
		return fmt.Sprintf("for (const %s of mkIt(%d, 3)) { %s %s }", x, s, g.blk(d), brk)
	case 10:
		g.use("for-of-generator")
		x := g.id("x")
		s := g.ns()
		g.ns()
		brk := ""
		if g.t.Draw(2) == 1 {
			brk = fmt.Sprintf("if (%s === 1) break;", x)
		}
		fn := "gen"
		if g.t.Draw(3) == 0 {
			fn = "genPlain"
		}
		return fmt.Sprintf("for (const %s of %s(%d, 3)) { %s %s }", x, fn, s, g.blk(d), brk)
	case 11:
		g.use("labelled-continue")
		l, i := g.id("L"), g.id("i")
		return fmt.Sprintf("%s: for (var %s = 0; %s < 2; %s++) { try { %s if (%s === 0) continue %s; } finally { r += %s; } }", l, i, i, i, g.blk(d), i, l, g.p())
	case 12:
		g.use("labelled-break")
		l := g.id("L")
		return fmt.Sprintf("%s: { try { %s break %s; } finally { r += %s; } }", l, g.blk(d), l, g.p())
	case 13:
		g.use("switch")
		return fmt.Sprintf("switch (%s) { case 0: %s case 1: %s break; default: %s }", g.p(), g.stmt(d), g.stmt(d), g.stmt(d))
	case 14:
		if g.strict {
			return fmt.Sprintf("r += %s;", g.p())
		}
		g.use("with")
		return fmt.Sprintf("with ({%s: 1}) { %s }", g.id("wv"), g.blk(d))
	case 15:
		if g.strict {
			// inside a class body: goja's compiler mis-resolves outer function-scoped variables when a class
			// *expression* contains a direct eval (Go index-out-of-range in loadStash; a C01/C02 matter, recorded in
			// DESIGN.md as an out-of-scope finding) - the combination is not generated.
			return fmt.Sprintf("r += %s;", g.p())
		}
		g.use("direct-eval")
		return fmt.Sprintf("eval(%s);", jsq(g.blk(d)))
	case 16:
		g.use("indirect-eval")
		return fmt.Sprintf("r += (0, eval)(%s);", jsq(fmt.Sprintf("(function(){ var r = 0; %s return r; })()", g.withStrict(false, func() string { return g.blk(d) }))))
	case 17:
		g.use("new-Function")
		return fmt.Sprintf("r += new Function(%s)();", jsq(fmt.Sprintf("var r = 0; %s return r;", g.withStrict(false, func() string { return g.blk(d) }))))
	case 18:
		g.use("getter")
		return fmt.Sprintf("r += ({ get a(){ %s return 1; } }).a;", g.blk(d))
	case 19:
		g.use("setter")
		return fmt.Sprintf("({ set a(v){ %s } }).a = 1;", g.blk(d))
	case 20:
		g.use("valueOf")
		return fmt.Sprintf("r += +({ valueOf(){ %s return 1; } });", g.blk(d))
	case 21:
		g.use("toString-template")
		return fmt.Sprintf("r += `${{ toString(){ %s return 'ab'; } }}`.length;", g.blk(d))
	case 22:
		g.use("toPrimitive")
		return fmt.Sprintf("r += 1 * ({ [Symbol.toPrimitive](h){ %s return 2; } });", g.blk(d))
	case 23:
		g.use("sort-comparator")
		return fmt.Sprintf("[3, 1, 2].sort(%s);", g.fn(d, "a, b", "a - b"))
	case 24:
		g.use("array-callback")
		m := []string{"map", "forEach", "filter", "find", "every", "some", "flatMap", "findLast"}[g.t.Draw(8)]
		return fmt.Sprintf("[1, 2].%s(%s);", m, g.fn(d, "x", "true"))
	case 25:
		g.use("reduce")
		return fmt.Sprintf("r += [1, 2, 3].reduce(%s, 0);", g.fn(d, "a, x", "a + x"))
	case 26:
		g.use("Array.from-iter-mapfn")
		s := g.ns()
		g.ns()
		return fmt.Sprintf("Array.from(mkIt(%d, 2), %s);", s, g.fn(d, "x", "x"))
	case 27:
		g.use("Set/Map-from-iter")
		s := g.ns()
		g.ns()
		if g.t.Draw(2) == 0 {
			return fmt.Sprintf("new Set(mkIt(%d, 2));", s)
		}
		return fmt.Sprintf("new Map(mkPairs(%d, 2));", s)
	case 28:
		g.use("spread")
		s := g.ns()
		g.ns()
		if g.t.Draw(2) == 0 {
			return fmt.Sprintf("r += [...mkIt(%d, 2)].length;", s)
		}
		return fmt.Sprintf("r += Math.max(...gen(%d, 2));", s)
	case 29:
		g.use("destructuring")
		s := g.ns()
		g.ns()
		return fmt.Sprintf("var [%s, %s = %s] = mkIt(%d, %d);", g.id("a"), g.id("b"), g.p(), s, 1+g.t.Draw(3))
	case 30:
		g.use("JSON-toJSON/reviver")
		if g.t.Draw(2) == 0 {
			return fmt.Sprintf("JSON.stringify({ a: { toJSON(){ %s return 1; } } });", g.blk(d))
		}
		return fmt.Sprintf("JSON.parse('[1,{\"a\":2}]', %s);", g.fn(d, "k, v", "v"))
	case 31:
		g.use("replace-callback")
		return fmt.Sprintf("r += 'abcb'.replace(/b/g, %s).length;", g.fn(d, "m", "'xy'"))
	case 32:
		g.use("proxy-trap")
		switch g.t.Draw(4) {
		case 0:
			return fmt.Sprintf("r += new Proxy({}, { get(t, k){ %s return 1; } }).x;", g.blk(d))
		case 1:
			return fmt.Sprintf("r += ('x' in new Proxy({}, { has(t, k){ %s return true; } })) ? 1 : 0;", g.blk(d))
		case 2:
			return fmt.Sprintf("r += Object.keys(new Proxy({}, { ownKeys(t){ %s return []; } })).length;", g.blk(d))
		default:
			return fmt.Sprintf("r += new Proxy(function(){}, { apply(t, th, a){ %s return 1; } })();", g.blk(d))
		}
	case 33:
		g.use("class")
		return g.withStrict(true, func() string { return g.classStmt(d) })
	case 100: // placeholder so that the switch below stays a method
		return ""
	}
	return fmt.Sprintf("r += %s;", g.p())
}

func (g *jsgen) classStmt(d int) string {
	{
		switch g.t.Draw(5) {
		case 0:
			return fmt.Sprintf("new (class { constructor(){ %s } })();", g.blk(d))
		case 1:
			return fmt.Sprintf("new (class { x = (%s)(); })();", g.fn(d, "", "1"))
		case 2:
			return fmt.Sprintf("(class { static { %s } });", g.blk(d))
		case 3:
			return fmt.Sprintf("new (class extends (class { constructor(){ %s } }) { constructor(){ r += %s; super(); %s } })();", g.blk(d), g.p(), g.stmt(d))
		default:
			return fmt.Sprintf("new (class { #m(){ %s return 1; } constructor(){ r += this.#m(); } })();", g.blk(d))
		}
	}
}

func (g *jsgen) stmt2(k, d int) string {
	switch k {
	case 34:
		g.use("call/apply/bind")
		switch g.t.Draw(4) {
		case 0:
			return fmt.Sprintf("r += (%s).call(null);", g.fn(d, "", "1"))
		case 1:
			return fmt.Sprintf("r += (%s).apply(null, [1]);", g.fn(d, "x", "x"))
		case 2:
			return fmt.Sprintf("r += (%s).bind(null, 1)();", g.fn(d, "x", "x"))
		default:
			return fmt.Sprintf("r += Reflect.apply(%s, null, [1]);", g.fn(d, "x", "x"))
		}
	case 35:
		g.use("tagged-template")
		return fmt.Sprintf("r += (%s)`a${1}b`;", g.fn(d, "s, v", "v"))
	case 36:
		g.use("recursion")
		f := g.id("f")
		n := 1 + g.t.Draw(6)
		if g.t.Draw(4) == 0 {
			n = 10 + g.t.Draw(60)
		}
		s1, s2 := g.ns(), g.ns()
		return fmt.Sprintf("(function %s(n){ A(%d, n); if (n > 0) { try { %s(n - 1); } finally { r += P(%d); } } else { %s } })(%d);", f, s1, f, s2, g.blk(d), n)
	case 37:
		g.use("generator-manual")
		gv := g.id("g")
		var drv strings.Builder
		for i, n := 0, 1+g.t.Draw(4); i < n; i++ {
			switch g.t.Draw(6) {
			case 4:
				fmt.Fprintf(&drv, "%s.return(7); ", gv)
			case 5:
				fmt.Fprintf(&drv, "try { %s.throw(8); } catch (%s) { r += %s; } ", gv, g.id("e"), g.p())
			default:
				fmt.Fprintf(&drv, "%s.next(%d); ", gv, i)
			}
		}
		if !g.strict && g.t.Draw(3) == 0 {
			// the generator is suspended (and resumed) while assignments to unresolved/with-scoped references are pending,
			// inside a try statement: the pending reference records belong to the activation, not to the caller
			g.use("generator-pending-reference-across-yield")
			q := g.id("q")
			return fmt.Sprintf("{ var %s = (function*(){ var o = { %s: 0 }; with (o) { try { %s = yield 1; %s %s = (yield 2) + %s; %s } catch (%s) { r += %s; } finally { r += %s; } } })(); %s }",
				gv, q, q, g.blk(d), q, g.p(), g.stmt(d), g.id("e"), g.p(), g.p(), drv.String())
		}
		return fmt.Sprintf("{ var %s = (function*(){ try { %s r += yield 1; %s yield 2; } finally { r += %s; } })(); %s }", gv, g.blk(d), g.stmt(d), g.p(), drv.String())
	case 38:
		g.use("generator-for-of")
		brk := ""
		x := g.id("x")
		if g.t.Draw(2) == 1 {
			brk = "break;"
		}
		return fmt.Sprintf("for (var %s of (function*(){ %s yield 1; %s yield 2; })()) { r += %s; %s }", x, g.blk(d), g.stmt(d), g.p(), brk)
	case 39:
		g.use("yield-star")
		s := g.ns()
		g.ns()
		inner := fmt.Sprintf("mkIt(%d, 2)", s)
		if g.t.Draw(2) == 0 {
			inner = fmt.Sprintf("(function*(){ %s yield 1; })()", g.blk(d))
		}
		gv := g.id("g")
		return fmt.Sprintf("{ var %s = (function*(){ try { yield* %s; } finally { r += %s; } })(); %s.next(); %s.next(); %s.return(1); }", gv, inner, g.p(), gv, gv, gv)
	case 40:
		if g.noAsync {
			return fmt.Sprintf("r += %s;", g.p())
		}
		g.use("async-function")
		g.usesJob = true
		return fmt.Sprintf("(async function(){ try { %s await 0; %s } finally { r += %s; } })().catch(function(){ %s; });", g.blk(d), g.blk(d), g.p(), g.p())
	case 41:
		if g.noAsync {
			return fmt.Sprintf("r += %s;", g.p())
		}
		g.use("promise-then")
		g.usesJob = true
		switch g.t.Draw(4) {
		case 0:
			return fmt.Sprintf("Promise.resolve(1).then(%s).then(%s, function(){ %s; });", g.fn(d, "v", "v"), g.fn(d, "v", "v"), g.p())
		case 1:
			return fmt.Sprintf("new Promise(function(res, rej){ %s res(1); }).then(function(){ %s; }, function(){ %s; });", g.blk(d), g.p(), g.p())
		case 2:
			return fmt.Sprintf("Promise.resolve({ then(res, rej){ %s res(1); } }).then(function(){ %s; }, function(){ %s; });", g.blk(d), g.p(), g.p())
		default:
			s := g.ns()
			g.ns()
			return fmt.Sprintf("Promise.all(mkIt(%d, 2)).then(function(){ %s; }, function(){ %s; });", s, g.p(), g.p())
		}
	case 42:
		if g.noNest || g.bodyIdx == 0 {
			return fmt.Sprintf("r += %s;", g.p())
		}
		g.use("native-reentry:RunProgram")
		nb := g.t.Draw(g.bodyIdx)
		if g.prev[nb].UsesJob {
			g.usesJob = true
		}
		return fmt.Sprintf("r += NR(%d, %d);", nb, g.t.Draw(4))
	case 43:
		if g.noNest {
			return fmt.Sprintf("r += %s;", g.p())
		}
		switch g.t.Draw(3) {
		case 0:
			g.use("native-reentry:Callable")
			return fmt.Sprintf("r += NC(%s, %d);", g.fn(d, "", "1"), g.t.Draw(4))
		case 1:
			g.use("native-reentry:ExportTo-func")
			return fmt.Sprintf("r += NF(%s, %d);", g.fn(d, "", "1"), g.t.Draw(4))
		default:
			g.use("native-reentry:Constructor")
			return fmt.Sprintf("NK(function(){ %s }, %d);", g.blk(d), g.t.Draw(4))
		}
	case 44:
		if g.noNest {
			return fmt.Sprintf("r += %s;", g.p())
		}
		switch g.t.Draw(3) {
		case 0:
			g.use("native-reentry:Try+ForOf")
			s := g.ns()
			g.ns()
			st := g.ns()
			it := fmt.Sprintf("mkIt(%d, 3)", s)
			if g.t.Draw(2) == 0 {
				it = fmt.Sprintf("gen(%d, 3)", s)
			}
			return fmt.Sprintf("NO(%s, %d, %d);", it, st, g.t.Draw(3))
		case 1:
			g.use("native-reentry:Try+Object.Get")
			return fmt.Sprintf("r += NG({ get a(){ %s return 1; } }, 'a');", g.blk(d))
		default:
			g.use("native-reentry:New")
			return fmt.Sprintf("NN(function(){ %s });", g.blk(d))
		}
	case 48:
		g.use("array-join/toString-recursion-guard")
		switch g.t.Draw(3) {
		case 0:
			// the callbacks join() makes BEFORE it reaches the elements: the length getter of an array-like receiver and
			// the conversion of the separator
			return fmt.Sprintf("{ var al = { get length(){ %s return 2; }, 0: 'a', 1: { toString(){ r += %s; return 'b'; } } }; r += Array.prototype.join.call(al, { toString(){ %s return '-'; } }).length; r += Array.prototype.join.call(al, '+').length; }", g.blk(d), g.p(), g.blk(d))
		case 1:
			return fmt.Sprintf("{ var ar = [1, { toString(){ r += %s; return 'b'; } }]; r += ar.join({ toString(){ %s return '-'; } }).length; r += ar.toString().length + String(ar).length; }", g.p(), g.blk(d))
		}
		return fmt.Sprintf("r += [{ toString(){ %s return 'a'; } }, [1, { toString(){ r += %s; return 'b'; } }]].join().length;", g.blk(d), g.p())
	case 49:
		switch g.t.Draw(3) {
		case 0:
			g.use("JSON.stringify-replacer")
			return fmt.Sprintf("JSON.stringify({ a: 1, b: [2, { c: 3 }] }, %s);", g.fn(d, "k, v", "v"))
		case 1:
			g.use("Object.defineProperties-getter-descriptor")
			return fmt.Sprintf("Object.defineProperties({}, { a: { get value(){ %s return 1; } } });", g.blk(d))
		default:
			g.use("String.prototype.split-Symbol.split")
			return fmt.Sprintf("r += 'a,b'.split({ [Symbol.split](s, l){ %s return [1, 2]; } }).length;", g.blk(d))
		}
	case 46, 47:
		// constructor activations (their new.target / this / home object registers must be unwound like everything else)
		switch g.t.Draw(4) {
		case 0:
			g.use("function-constructor")
			return fmt.Sprintf("new (function(){ %s })();", g.blk(d))
		case 1:
			g.use("Reflect.construct")
			return fmt.Sprintf("Reflect.construct(function(){ %s }, []);", g.blk(d))
		case 2:
			g.use("class-constructor")
			return g.withStrict(true, func() string { return fmt.Sprintf("new (class { constructor(){ %s } })();", g.blk(d)) })
		default:
			g.use("derived-constructor")
			return g.withStrict(true, func() string {
				return fmt.Sprintf("new (class extends (function(){ %s }) { constructor(){ try { r += %s; } finally { super(); } %s } })();", g.blk(d), g.p(), g.stmt(d))
			})
		}
	case 50:
		// a native (bound function) frame whose 'name' property is an accessor: captured stack traces walk over it,
		// also while an exception or an interrupt is being processed
		g.use("native-frame-with-accessor-name")
		bf := g.id("bf")
		return fmt.Sprintf("{ var %s = (function(){ %s }).bind(null); Object.defineProperty(%s, 'name', { get(){ r += %s; return 'acc'; } }); %s(); }", bf, g.blk(d), bf, g.p(), bf)
	case 51:
		// an exception that leaves a for-of loop (closing its iterator on the way) in an activation without a try
		// statement of its own; unless an enclosing generated context catches it, it ends the whole call
		g.use("throw-out-of-for-of-without-try")
		x := g.id("x")
		s1 := g.ns()
		g.ns()
		return fmt.Sprintf("(function(){ for (var %s of mkIt(%d, 2)) { r += %s; throw new RangeError('leaves the loop'); } })();", x, s1, g.p())
	case 52:
		// a finally block that ends with its own abrupt completion (continue / break / return): whatever was pending
		// when it was entered (nothing in the fault-free run; an injected exception in the faulted one) is cancelled
		g.use("finally-cancels-pending-completion")
		switch g.t.Draw(3) {
		case 0:
			l, i := g.id("L"), g.id("i")
			return fmt.Sprintf("%s: for (var %s = 0; %s < 2; %s++) { try { %s } finally { if (%s === 0) continue %s; } }", l, i, i, i, g.blk(d), i, l)
		case 1:
			l := g.id("L")
			return fmt.Sprintf("%s: { try { %s } finally { break %s; } }", l, g.blk(d), l)
		default:
			return fmt.Sprintf("r += (function(){ try { %s } finally { return 1; } })(); try { r += %s; } finally { r += %s; }", g.blk(d), g.p(), g.p())
		}
	case 45:
		g.use("arguments/closure")
		c := g.id("c")
		return fmt.Sprintf("{ var %s = (function(a){ return function(){ arguments.length; %s return a; }; })(1); r += %s(); }", c, g.blk(d), c)
	}
	return fmt.Sprintf("r += %s;", g.p())
}

// setupSrc is call 0 of every history: helper iterables whose methods are probes, plus the generated bodies.
const helperSrc = `
function mkIt(s, n) {
  var i = 0;
  return {
    [Symbol.iterator]() { return this; },
    next() { P(s); return i < n ? { value: i++, done: false } : { value: undefined, done: true }; },
    return(v) { P(s + 1); return {}; }
  };
}
function mkPairs(s, n) {
  var i = 0;
  return {
    [Symbol.iterator]() { return this; },
    next() { P(s); return i < n ? { value: [i++, 1], done: false } : { value: undefined, done: true }; },
    return(v) { P(s + 1); return {}; }
  };
}
function* gen(s, n) { try { for (var i = 0; i < n; i++) { P(s); yield i; } } finally { P(s + 1); } }
function* genPlain(s, n) { for (var i = 0; i < n; i++) { P(s); yield i; } }
function iterOf(fn, s) {
  var n = 0;
  return {
    [Symbol.iterator]() { return this; },
    next() { return n++ < 2 ? { value: fn(), done: false } : { value: undefined, done: true }; },
    return(v) { P(s); return {}; }
  };
}
`

type genBody struct {
	Name    string
	Src     string
	UsesJob bool
	Sites   [2]int
}

// genBodies generates nb body functions; returns them plus the context-usage histogram.
func genBodies(t *core.Track, nb int, maxDepth, budget int, firstSite int, noNest, noAsync bool) ([]genBody, map[int]string, int) {
	g := &jsgen{t: t, site: firstSite, ctxUsed: map[string]int{}, siteCtx: map[int]string{}, noNest: noNest, noAsync: noAsync}
	var out []genBody
	for i := 0; i < nb; i++ {
		g.bodyIdx = i
		g.budget = budget/2 + t.Draw(budget/2+1)
		g.usesJob = false
		s0 := g.site
		d := 1 + t.Draw(maxDepth)
		var sb strings.Builder
		n := 1 + t.Draw(3)
		for j := 0; j < n; j++ {
			sb.WriteString("  " + g.stmt(d) + "\n")
		}
		name := fmt.Sprintf("body%d", i)
		src := fmt.Sprintf("function %s() {\n  var r = 0;\n%s  return r;\n}\n", name, sb.String())
		out = append(out, genBody{Name: name, Src: src, UsesJob: g.usesJob, Sites: [2]int{s0, g.site}})
		g.prev = out
	}
	return out, g.siteCtx, g.site
}
