package engines

import (
	"container/heap"
	"errors"
	"fmt"
	"os"
	"reflect"
	"strconv"
	"strings"
	"sync"
	"time"

	"github.com/dop251/goja"

	"verif/sim/core"
)

// loopsim (C10): the event loop of the embedding (goja_nodejs/eventloop: real timers, channels, goroutines) is replaced
// by a discrete-event heap of macrotasks on a simulated clock. Every macrotask is exactly one outermost call into the
// real runtime, after which goja drains its own promise job queue (the code under test). The workload track decides the
// promise program (loopsim_ast.go); the schedule track decides start times, Go-side resolver latencies, ties between
// macrotasks due at the same instant, how macrotasks enter the runtime (RunProgram / Callable / Constructor / ExportTo'd
// function) and the faults
// (interrupt inside a host native, interrupt at a VM tick, call-depth limit). The recorded history is then replayed
// against a reference model written from ECMA-262 (loopsim_model.go).

func init() {
	core.Register(&core.Spec{
		Property: "C10", EngineName: "loopsim",
		New:       func(tier string) core.Engine { return &loopsim{tier: tier} },
		QuickRuns: 40000, QuickCapS: 60, ThoroughRun: 2000000, ThoroughCap: 1200,
		Rule: "a case = (promise program of <= 12 top-level operations in 1-3 client tasks (each ending normally or with an uncaught exception) over <= 5 base promises plus derived ones, with handlers, executors, thenables, async functions, timers and 0-2 Go-side NewPromise promises; macrotask schedule: start times, resolver latencies, ties, entry API; fault schedule); distinct = distinct realised shape (per macrotask: kind, fault, sequence of the kinds of the handlers / probes that ran); non-trivial = jobs of at least two chains ran interleaved in one drain, or a fault (interrupt, depth limit) fired",
		Real: realComponents,
		Stub: []string{"the event loop (macrotask heap on a simulated clock instead of goja_nodejs/eventloop)", "setTimeout/clearTimeout", "the Go-side asynchronous operations that settle NewPromise promises (latencies drawn from the tape)", "every host native (L, B, Z, R, G, SS, GS, CT, goAsync, settleNow, NH, NS, D)", "the interrupting watchdog (raised inside a host native or from the per-instruction tick hook)", "Math.random"},
		Assumptions: []string{
			"only the intrinsic Promise constructor is used: no subclassing, no Symbol.species, no patched then/resolve",
			"one Runtime is used from one goroutine; every macrotask is one outermost call (RunProgram, Callable, Constructor, ExportTo'd Go func or a NewPromise resolver)",
			"tick-raised interrupts are delivered at the first VM tick >= the drawn one that is not between the marker B() and the next host call (the marker precedes every promise-visible effect, so the model can place the interrupt exactly)",
			"error objects are compared by kind (TypeError, AggregateError + errors), not by message text",
			"host natives propagate uncatchable errors they receive from nested calls",
			"VERIF_C10_NO_HAZARD=1 removes the native-handler shapes (NH, NS) from the workload; it exists to study the rest of the space while the nested-drain finding is open",
		},
		FaultKinds: []string{"handler-throw", "thenable-throw", "resolver-called-twice", "resolver-from-inside-native", "resolver-from-inside-job", "interrupt-in-job", "interrupt-before-drain", "interrupt-at-tick", "depth-limit-in-job", "depth-limit-before-drain"},
	})
}

type loopsim struct{ tier string }

const (
	lfNone = iota
	lfNative
	lfTick
	lfDepth
)

var lfNames = [...]string{"", "interrupt-in-native", "interrupt-at-tick", "depth-limit"}

// ---- the macrotask heap ----------------------------------------------------------------------------------------

type lsTask struct {
	at     int64
	seq    int
	kind   int
	arg    int // task index / timer seq / go promise index
	intent lgoIntent
	second bool
	fn     goja.Callable
}

type lsHeap []*lsTask

func (h lsHeap) Len() int { return len(h) }
func (h lsHeap) Less(i, j int) bool {
	return h[i].at < h[j].at || h[i].at == h[j].at && h[i].seq < h[j].seq
}
func (h lsHeap) Swap(i, j int)       { h[i], h[j] = h[j], h[i] }
func (h *lsHeap) Push(x interface{}) { *h = append(*h, x.(*lsTask)) }
func (h *lsHeap) Pop() interface{} {
	o := *h
	x := o[len(o)-1]
	*h = o[:len(o)-1]
	return x
}

// ---- record of what the real runtime did -----------------------------------------------------------------------

type lsSlotState struct {
	state  int
	result string
}

type lsRec struct {
	task      *lsTask
	callable  bool // entered through anything but RunProgram
	entry     int
	fault     int
	faultPos  int
	fromZ     bool
	fired     bool
	firedAt   int // number of events logged when the interrupt was raised
	events    []string
	tracker   []string
	states    []lsSlotState // per slot; state -1: slot empty
	err       error
	excDesc   string // err is an *Exception: description of the thrown value
	panicked  string
	jobQueue  int
	ticks     int64
	startedAt int64
}

// ---- the simulated host around the real runtime ----------------------------------------------------------------

type lsTimer struct {
	task      *lsTask
	cancelled bool
	fired     bool
}

type lsHost struct {
	rt   *goja.Runtime
	prog *lprog
	S    *core.Track

	now  int64
	seq  int
	heap lsHeap

	reg     []*goja.Object
	byPtr   map[*goja.Promise]int
	anon    map[*goja.Promise]int
	stash   [][2]goja.Value
	timers  []*lsTimer
	tkeys   []int
	gres    []func(interface{}) error
	grej    []func(interface{}) error
	gdelay  [][2]int
	gtwice  []bool
	pending int // go-settle macrotasks scheduled and not yet run

	// current macrotask
	events   []string
	tracker  []lsTrk
	window   bool // between B() (or the start of the macrotask) and the next host call
	fireable int
	fault    int
	faultPos int
	fromZ    bool // the fault position counts from the end of the synchronous part (marker Z)
	armed    bool
	tickBase int64
	fired    bool
	firedAt  int
	payload  *intrPayload
	ticks    int64
	total    int64
	harness  string
}

type lsTrk struct {
	handle bool
	p      *goja.Promise
}

var typeGojaPromise = reflect.TypeOf((*goja.Promise)(nil))

func (h *lsHost) promiseOf(v goja.Value) *goja.Promise {
	if o, ok := v.(*goja.Object); ok && o.ExportType() == typeGojaPromise {
		if p, ok := o.Export().(*goja.Promise); ok {
			return p
		}
	}
	return nil
}

// desc renders a value without running script code (data property reads only).
func (h *lsHost) desc(v goja.Value) string {
	if v == nil || goja.IsUndefined(v) {
		return "u"
	}
	if goja.IsNull(v) {
		return "null"
	}
	o, ok := v.(*goja.Object)
	if !ok {
		return v.String()
	}
	if p := h.promiseOf(o); p != nil {
		if s, ok := h.byPtr[p]; ok {
			return "P" + strconv.Itoa(s)
		}
		return "P?"
	}
	list := func(a *goja.Object) string {
		var sb strings.Builder
		sb.WriteByte('[')
		n := int(a.Get("length").ToInteger())
		for i := 0; i < n && i < 16; i++ {
			if i > 0 {
				sb.WriteByte(',')
			}
			sb.WriteString(h.desc(a.Get(strconv.Itoa(i))))
		}
		sb.WriteByte(']')
		return sb.String()
	}
	switch o.ClassName() {
	case "Array":
		return list(o)
	case "Error":
		name := o.Get("name").String()
		if name == "AggregateError" {
			if e, ok := o.Get("errors").(*goja.Object); ok {
				return "Agg" + list(e)
			}
		}
		return name
	case "Function":
		return "fn"
	}
	if t := o.Get("tid"); t != nil && !goja.IsUndefined(t) {
		return "T" + t.String()
	}
	if st := o.Get("status"); st != nil && !goja.IsUndefined(st) {
		if st.String() == "fulfilled" {
			return "{f:" + h.desc(o.Get("value")) + "}"
		}
		return "{r:" + h.desc(o.Get("reason")) + "}"
	}
	return "obj"
}

// simple records a host call that completes before anything else happens; the native interrupt fault fires here.
func (h *lsHost) simple(ev string, opensWindow bool) {
	h.events = append(h.events, ev)
	h.window = opensWindow
	h.total++
	if h.fault == lfNative && !h.fired && h.armed {
		if h.fireable == h.faultPos {
			h.fired, h.firedAt = true, len(h.events)
			h.rt.Interrupt(h.payload)
		}
		h.fireable++
	}
}

// compound records a host call after which the native goes on to do promise-visible work itself.
func (h *lsHost) compound(ev string) {
	h.events = append(h.events, ev)
	h.window = true
	h.total++
}

func (h *lsHost) tick() {
	h.ticks++
	if h.fault == lfTick && !h.fired && h.armed && !h.window && h.ticks-h.tickBase > int64(h.faultPos) {
		h.fired, h.firedAt = true, len(h.events)
		h.rt.Interrupt(h.payload)
	}
	if h.ticks > 2000000 {
		panic("loopsim: macrotask does not terminate")
	}
}

func (h *lsHost) goValue(k, n int) goja.Value {
	switch k {
	case lvInt:
		return h.rt.ToValue(n)
	case lvProm:
		if n >= 0 && n < len(h.reg) && h.reg[n] != nil {
			return h.reg[n]
		}
	}
	return goja.Undefined()
}

func (h *lsHost) schedule(t *lsTask) {
	t.seq = h.seq
	h.seq++
	heap.Push(&h.heap, t)
}

func (h *lsHost) callResolver(g int, rej bool, v goja.Value) {
	f := h.gres[g]
	if rej {
		f = h.grej[g]
	}
	if f == nil {
		return
	}
	if err := f(v); err != nil {
		panic(err) // uncatchable (interrupt, stack overflow): hand it on
	}
}

func (h *lsHost) install() {
	rt := h.rt
	argInt := func(c goja.FunctionCall, i int) int { return int(c.Argument(i).ToInteger()) }
	rt.Set("L", func(c goja.FunctionCall) goja.Value {
		h.simple("L"+strconv.Itoa(argInt(c, 0))+"("+h.desc(c.Argument(1))+")", false)
		return goja.Undefined()
	})
	rt.Set("B", func(c goja.FunctionCall) goja.Value {
		h.simple("B", true)
		return goja.Undefined()
	})
	rt.Set("Z", func(c goja.FunctionCall) goja.Value {
		h.simple("Z", true)
		if !h.armed {
			h.armed, h.fireable, h.tickBase = true, 0, h.ticks
		}
		return goja.Undefined()
	})
	rt.Set("D", func(c goja.FunctionCall) goja.Value {
		h.simple("D", false)
		return goja.Undefined()
	})
	rt.Set("R", func(c goja.FunctionCall) goja.Value {
		s := argInt(c, 0)
		ev := "R" + strconv.Itoa(s)
		if o, ok := c.Argument(1).(*goja.Object); ok && h.promiseOf(o) != nil {
			h.reg[s] = o
			if p := h.promiseOf(o); p != nil {
				if _, dup := h.byPtr[p]; !dup {
					h.byPtr[p] = s
				}
			}
		} else {
			ev += "(!" + h.desc(c.Argument(1)) + ")"
		}
		h.simple(ev, false)
		return goja.Undefined()
	})
	rt.Set("G", func(c goja.FunctionCall) goja.Value {
		if s := argInt(c, 0); s >= 0 && s < len(h.reg) && h.reg[s] != nil {
			return h.reg[s]
		}
		return goja.Undefined()
	})
	rt.Set("SS", func(c goja.FunctionCall) goja.Value {
		k := argInt(c, 0)
		h.stash[k] = [2]goja.Value{c.Argument(1), c.Argument(2)}
		h.simple("SS"+strconv.Itoa(k), false)
		return goja.Undefined()
	})
	rt.Set("GS", func(c goja.FunctionCall) goja.Value {
		if v := h.stash[argInt(c, 0)][argInt(c, 1)]; v != nil {
			return v
		}
		return goja.Undefined()
	})
	rt.Set("setTimeout", func(c goja.FunctionCall) goja.Value {
		fn, ok := goja.AssertFunction(c.Argument(0))
		if !ok {
			panic(rt.NewTypeError("setTimeout: not a function"))
		}
		ms, key := argInt(c, 1), argInt(c, 2)
		t := &lsTask{at: h.now + int64(ms), kind: mtTimer, arg: len(h.timers), fn: fn}
		h.timers = append(h.timers, &lsTimer{task: t})
		if key >= 0 {
			h.tkeys[key] = t.arg
		}
		h.schedule(t)
		h.simple(fmt.Sprintf("ST%d:%d", key, ms), false)
		return rt.ToValue(t.arg)
	})
	rt.Set("CT", func(c goja.FunctionCall) goja.Value {
		key, hit := argInt(c, 0), 0
		if s := h.tkeys[key]; s >= 0 && !h.timers[s].fired && !h.timers[s].cancelled {
			h.timers[s].cancelled = true
			hit = 1
		}
		h.simple(fmt.Sprintf("CT%d:%d", key, hit), false)
		return goja.Undefined()
	})
	rt.Set("goAsync", func(c goja.FunctionCall) goja.Value {
		g := argInt(c, 0)
		p, res, rej := rt.NewPromise()
		h.gres[g], h.grej[g] = res, rej
		pl := h.prog.goPlan[g]
		h.schedule(&lsTask{at: h.now + int64(h.gdelay[g][0]), kind: mtGoSettle, arg: g, intent: pl[0]})
		h.pending++
		if h.gtwice[g] {
			h.schedule(&lsTask{at: h.now + int64(h.gdelay[g][1]), kind: mtGoSettle, arg: g, intent: pl[1], second: true})
			h.pending++
		}
		h.simple("GA"+strconv.Itoa(g), false)
		return rt.ToValue(p)
	})
	rt.Set("settleNow", func(c goja.FunctionCall) goja.Value {
		g := argInt(c, 0)
		h.compound("SN" + strconv.Itoa(g))
		h.callResolver(g, argInt(c, 1) == 1, h.goValue(argInt(c, 2), argInt(c, 3)))
		return goja.Undefined()
	})
	// NH(id, fn): a promise handler implemented in Go that calls back into script through a Callable.
	rt.Set("NH", func(c goja.FunctionCall) goja.Value {
		id := argInt(c, 0)
		fn, ok := goja.AssertFunction(c.Argument(1))
		if !ok {
			panic(rt.NewTypeError("NH: not a function"))
		}
		return rt.ToValue(func(c goja.FunctionCall) goja.Value {
			arg := c.Argument(0)
			h.compound("NH" + strconv.Itoa(id) + "(" + h.desc(arg) + ")")
			v, err := fn(goja.Undefined(), arg)
			if err != nil {
				panic(err)
			}
			return v
		})
	})
	// NS(id, g, rej, vk, vn): a promise handler implemented in Go that settles a Go-side promise.
	rt.Set("NS", func(c goja.FunctionCall) goja.Value {
		id, g, rej, vk, vn := argInt(c, 0), argInt(c, 1), argInt(c, 2) == 1, argInt(c, 3), argInt(c, 4)
		return rt.ToValue(func(c goja.FunctionCall) goja.Value {
			h.compound("NS" + strconv.Itoa(id) + "(" + h.desc(c.Argument(0)) + ")")
			h.callResolver(g, rej, h.goValue(vk, vn))
			return goja.Undefined()
		})
	})
	rt.SetPromiseRejectionTracker(func(p *goja.Promise, op goja.PromiseRejectionOperation) {
		h.tracker = append(h.tracker, lsTrk{op == goja.PromiseRejectionHandle, p})
	})
}

func (h *lsHost) trackerLabels() []string {
	out := make([]string, 0, len(h.tracker))
	for _, t := range h.tracker {
		var l string
		if s, ok := h.byPtr[t.p]; ok {
			l = "P" + strconv.Itoa(s)
		} else {
			k, ok := h.anon[t.p]
			if !ok {
				k = len(h.anon)
				h.anon[t.p] = k
			}
			l = "anon#" + strconv.Itoa(k)
		}
		if t.handle {
			out = append(out, "handle "+l)
		} else {
			out = append(out, "reject "+l)
		}
	}
	return out
}

var (
	lsTaskProgs    [3]*goja.Program
	lsTaskProgOnce sync.Once
)

// runMacrotask performs exactly one outermost call into the runtime.
func (h *lsHost) runMacrotask(t *lsTask, entry int, fault, pos int, fromZ bool) *lsRec {
	rt := h.rt
	rec := &lsRec{task: t, callable: entry != leRunProgram, entry: entry, fault: fault, faultPos: pos, fromZ: fromZ, startedAt: h.now}
	h.events, h.tracker = nil, nil
	h.window, h.fireable, h.fault, h.faultPos, h.fired, h.firedAt, h.ticks = true, 0, fault, pos, false, 0, 0
	h.fromZ, h.armed, h.tickBase = fromZ, !fromZ || t.kind == mtGoSettle, 0
	h.payload = &intrPayload{id: t.seq}
	if fault == lfDepth {
		rt.SetMaxCallStackSize(pos)
	}
	func() {
		defer func() {
			if x := recover(); x != nil {
				rec.panicked = fmt.Sprintf("%T %v", x, x) // a Go panic went through the runtime to the host
			}
		}()
		switch t.kind {
		case mtTask:
			fv := rt.Get("T" + strconv.Itoa(t.arg))
			switch entry {
			case leCallable:
				f, _ := goja.AssertFunction(fv)
				_, rec.err = f(goja.Undefined())
			case leConstructor:
				f, _ := goja.AssertConstructor(fv)
				_, rec.err = f(nil)
			case leExportFunc:
				var f func() (goja.Value, error)
				if err := rt.ExportTo(fv, &f); err != nil {
					panic("loopsim: ExportTo: " + err.Error())
				}
				_, rec.err = f()
			default:
				_, rec.err = rt.RunProgram(lsTaskProgs[t.arg])
			}
		case mtTimer:
			h.timers[t.arg].fired = true
			_, rec.err = t.fn(goja.Undefined())
		case mtGoSettle:
			h.pending--
			f := h.gres[t.arg]
			if t.intent.rej {
				f = h.grej[t.arg]
			}
			rec.err = f(h.goValue(t.intent.val.k, t.intent.val.n))
		}
	}()
	if fault == lfDepth {
		rt.SetMaxCallStackSize(1<<31 - 1)
	}
	h.fault = lfNone
	if ex, ok := rec.err.(*goja.Exception); ok {
		rec.excDesc = h.desc(ex.Value())
	}
	rec.events, rec.fired, rec.firedAt, rec.ticks = h.events, h.fired, h.firedAt, h.ticks
	rec.tracker = h.trackerLabels()
	rec.jobQueue = rt.VerifState().JobQueue
	rec.states = make([]lsSlotState, len(h.reg))
	for s, o := range h.reg {
		if o == nil {
			rec.states[s].state = -1
			continue
		}
		p := h.promiseOf(o)
		rec.states[s] = lsSlotState{int(p.State()), h.desc(p.Result())}
	}
	h.total += h.ticks + 1
	return rec
}

// ---- one run ---------------------------------------------------------------------------------------------------

const lsMaxMacrotasks = 48

// How a client task enters the runtime.
const (
	leRunProgram = iota
	leCallable
	leConstructor
	leExportFunc
)

var leNames = [...]string{"RunProgram", "Callable", "Constructor", "ExportTo'd func() (Value, error)"}

func (e *loopsim) Run(t *core.Tape, want bool) *core.Result {
	res := &core.Result{}
	W, S := &t.W, &t.S
	lsTaskProgOnce.Do(func() {
		for i := range lsTaskProgs {
			lsTaskProgs[i] = goja.MustCompile("task", "T"+strconv.Itoa(i)+"()", false)
		}
	})

	// ---- workload ------------------------------------------------------------------------------------------------
	prog := genLoopProgram(W, os.Getenv("VERIF_C10_NO_HAZARD") == "")
	src := renderLoopProgram(prog)

	// ---- system --------------------------------------------------------------------------------------------------
	rt := goja.New()
	rt.SetRandSource(func() float64 { return 0.5 })
	h := &lsHost{rt: rt, prog: prog, S: S, byPtr: map[*goja.Promise]int{}, anon: map[*goja.Promise]int{}}
	h.reg = make([]*goja.Object, prog.nSlots)
	h.stash = make([][2]goja.Value, prog.nStash)
	h.tkeys = make([]int, prog.nTimers)
	for i := range h.tkeys {
		h.tkeys[i] = -1
	}
	h.gres = make([]func(interface{}) error, prog.nGo)
	h.grej = make([]func(interface{}) error, prog.nGo)
	h.install()
	rt.SetTimeSource(func() time.Time { return time.UnixMilli(h.now) }) // Date, if anything used it, would read the simulated clock
	prevTick := goja.VerifTick
	goja.VerifTick = func(r *goja.Runtime) {
		if r == rt {
			h.tick()
		}
	}
	defer func() { goja.VerifTick = prevTick }()
	if _, err := rt.RunScript("program", src); err != nil {
		panic("loopsim: the rendered program does not load: " + err.Error() + "\n" + src)
	}

	// ---- schedule ------------------------------------------------------------------------------------------------
	taskEntry := make([]int, len(prog.tasks))
	for i := range prog.tasks {
		h.schedule(&lsTask{at: int64(i + S.Draw(4)), kind: mtTask, arg: i})
		taskEntry[i] = S.Draw(4)
	}
	h.gdelay = make([][2]int, prog.nGo)
	h.gtwice = make([]bool, prog.nGo)
	for g := 0; g < prog.nGo; g++ {
		h.gdelay[g][0] = S.Draw(12)
		h.gtwice[g] = S.Draw(4) == 3
		h.gdelay[g][1] = S.Draw(12)
	}

	var recs []*lsRec
	faultsLeft := 2
	for h.heap.Len() > 0 && len(recs) < lsMaxMacrotasks {
		// all macrotasks due at the earliest instant are candidates; the tape picks (0: the one registered first)
		first := heap.Pop(&h.heap).(*lsTask)
		cands := []*lsTask{first}
		for h.heap.Len() > 0 && h.heap[0].at == first.at {
			cands = append(cands, heap.Pop(&h.heap).(*lsTask))
		}
		pick := 0
		if len(cands) > 1 {
			pick = S.Draw(len(cands))
		}
		mt := cands[pick]
		for i, c := range cands {
			if i != pick {
				heap.Push(&h.heap, c)
			}
		}
		if mt.kind == mtTimer && h.timers[mt.arg].cancelled {
			continue
		}
		h.now = mt.at
		entry := leCallable
		if mt.kind == mtTask {
			entry = taskEntry[mt.arg]
		}
		if mt.kind == mtGoSettle {
			// reordering: a resolver scheduled later runs before one scheduled earlier
			for _, o := range h.heap {
				if o.kind == mtGoSettle && o.seq < mt.seq {
					res.Count("go-resolver-reordered", 1)
					break
				}
			}
		}
		fault, pos, fromZ := lfNone, 0, false
		if faultsLeft > 0 {
			switch S.Draw(20) {
			case 14, 15:
				fault, pos, fromZ = lfNative, S.Draw(16), true
			case 16:
				fault, pos = lfNative, S.Draw(30)
			case 17:
				fault, pos, fromZ = lfTick, S.Draw(160), true
			case 18:
				fault, pos = lfTick, S.Draw(300)
			case 19:
				fault, pos = lfDepth, 60+S.Draw(30)
			}
		}
		rec := h.runMacrotask(mt, entry, fault, pos, fromZ)
		recs = append(recs, rec)
		if _, exc := rec.err.(*goja.Exception); rec.fired || rec.err != nil && !exc {
			faultsLeft--
		}
		if rec.panicked != "" {
			break // the runtime is not required to be usable after a Go panic went through it
		}
	}
	res.SimTimeMs = h.now
	res.Steps = h.total

	// ---- oracle: replay the history against the reference model ----------------------------------------------------
	model := newLoopModel(prog, res, false)
	bad := e.judge(model, recs, res, true)
	if bad != nil && progHasHazard(prog) {
		// Does the history agree with a model that additionally has goja's re-entrant drain? Then the mismatch is that
		// finding and gets its stable signature; anything else keeps its own.
		dev := newLoopModel(prog, nil, true)
		if e.judge(dev, recs, &core.Result{}, false) == nil {
			bad.sig = bad.rule + " nested-drain-from-native-callable"
			bad.msg += "   [the history is exactly what the specification gives plus a re-entrant drain of the job queue at the Callable invoked by the native handler]"
		}
	}

	// ---- result ----------------------------------------------------------------------------------------------------
	var dl, sigParts []string
	for i, rec := range recs {
		dl = append(dl, fmt.Sprintf("%d|%d|%s|%s|%s|%s|%d", i, rec.startedAt, lsTaskName(rec), strings.Join(rec.events, " "), strings.Join(rec.tracker, ","), lsErrDesc(rec.err), rec.jobQueue))
		for s, st := range rec.states {
			if st.state >= 0 {
				dl = append(dl, fmt.Sprintf("  P%d %s %s", s, psNames[st.state], st.result))
			}
		}
		var sb strings.Builder
		sb.WriteByte("Ttg"[rec.task.kind])
		if rec.task.kind == mtTask {
			sb.WriteByte("pcne"[rec.entry])
		}
		for _, ev := range rec.events {
			if ev[0] == 'L' {
				if id, err := strconv.Atoi(ev[1:strings.IndexByte(ev, '(')]); err == nil && id < len(prog.siteKind) {
					sb.WriteByte(prog.siteKind[id])
				}
			} else if ev[0] == 'N' {
				sb.WriteByte(ev[1])
			}
		}
		if rec.excDesc != "" {
			sb.WriteString("!x")
		} else if rec.fired || rec.err != nil {
			sb.WriteString("!" + strconv.Itoa(rec.fault))
		}
		sigParts = append(sigParts, sb.String())
	}
	res.Sig = strings.Join(sigParts, "|")
	res.Steps += model.jobs
	res.NonTrivial = res.Counters["nontrivial-drains"] > 0 || res.Counters["faults-fired"] > 0
	delete(res.Counters, "nontrivial-drains")
	delete(res.Counters, "faults-fired")
	res.Digest = core.DigestLines(dl)
	if bad != nil {
		res.Fail(bad.rule, bad.sig, bad.msg, e.render(prog, src, recs, bad))
	}
	if want {
		res.Sample = e.render(prog, src, recs, bad)
	}
	return res
}

func progHasHazard(p *lprog) bool {
	for _, k := range p.siteKind {
		if k == 'N' || k == 'S' {
			return true
		}
	}
	return false
}

func lsTaskName(rec *lsRec) string {
	t := rec.task
	switch t.kind {
	case mtTask:
		return fmt.Sprintf("client task T%d() via %s", t.arg, leNames[rec.entry])
	case mtTimer:
		return fmt.Sprintf("timer #%d via Callable", t.arg)
	}
	which := "resolve"
	if t.intent.rej {
		which = "reject"
	}
	v := "undefined"
	switch t.intent.val.k {
	case lvInt:
		v = strconv.Itoa(t.intent.val.n)
	case lvProm:
		v = fmt.Sprintf("<promise in slot %d>", t.intent.val.n)
	}
	sec := ""
	if t.second {
		sec = " (second call)"
	}
	return fmt.Sprintf("Go-side %s(%s) of goAsync(%d)%s", which, v, t.arg, sec)
}

func lsErrDesc(err error) string {
	if err == nil {
		return "ok"
	}
	return errDesc(err)
}

type lsBad struct {
	rule, sig, msg string
	mt             int
	modelEvents    []string
	modelTracker   []string
}

// judge replays the recorded macrotasks on the model and compares. It returns the first disagreement.
func (e *loopsim) judge(m *lmodel, recs []*lsRec, res *core.Result, count bool) *lsBad {
	for i, rec := range recs {
		abortAt, depthArmed := 0, false
		if rec.fired {
			abortAt = rec.firedAt
		}
		var so *goja.StackOverflowError
		if rec.fault == lfDepth {
			depthArmed = true
		}
		aborted, depthAbort, inJob := m.runMacrotask(rec.task.kind, rec.task.arg, rec.task.intent, rec.callable, abortAt, depthArmed)
		bad := &lsBad{mt: i, modelEvents: m.events, modelTracker: m.trackerLabels()}
		where := "Ttg"[rec.task.kind : rec.task.kind+1]
		fail := func(rule, ctx, f string, a ...interface{}) *lsBad {
			bad.rule, bad.sig = rule, rule+" "+ctx
			bad.msg = fmt.Sprintf("macrotask #%d (%s): ", i, lsTaskName(rec)) + fmt.Sprintf(f, a...)
			return bad
		}
		faultName := lfNames[rec.fault]

		if rec.panicked != "" {
			return fail("unexpected-error", "go-panic", "a Go panic reached the host: %s", core.Trunc(rec.panicked, 300))
		}
		// (6) faults: the documented error comes back, nothing of the drain runs afterwards
		if rec.fired {
			var ie *goja.InterruptedError
			if !errors.As(rec.err, &ie) {
				return fail("interrupt-error", faultName, "Interrupt() was called after host call %d, the outermost call returned %s", rec.firedAt, lsErrDesc(rec.err))
			}
			if p, ok := ie.Value().(*intrPayload); !ok || p.id != rec.task.seq {
				return fail("interrupt-error", faultName+" value", "the InterruptedError carries %v, not the value given to Interrupt()", ie.Value())
			}
			if len(rec.events) > rec.firedAt {
				return fail("interrupt-ran-dropped-job", faultName, "after the interrupt (raised after host call %d) the runtime went on: %s", rec.firedAt, strings.Join(rec.events[rec.firedAt:], " "))
			}
			if !aborted {
				return fail("job-order", faultName+" model-end", "the interrupt was raised after host call %d but the model's macrotask has only %d", rec.firedAt, len(m.events))
			}
		} else if errors.As(rec.err, &so) {
			if rec.fault != lfDepth {
				return fail("unexpected-error", "stack-overflow", "StackOverflowError without a call-depth limit")
			}
			if !depthAbort {
				return fail("unexpected-error", "stack-overflow-early", "StackOverflowError (limit %d) before the deep recursion was reached; events: %s", rec.faultPos, strings.Join(rec.events, " "))
			}
		} else if rec.excDesc != "" && !aborted {
			// the synchronous part ended with an uncaught exception: it comes back as *Exception, after the drain
			if m.thrown == "" {
				return fail("unexpected-error", where, "the outermost call returned %s, the program does not throw there", core.Trunc(lsErrDesc(rec.err), 300))
			}
			if m.thrown != rec.excDesc {
				return fail("unexpected-error", where+" value", "the outermost call returned an exception with value %s, the program throws %s", rec.excDesc, m.thrown)
			}
		} else if rec.err != nil {
			return fail("unexpected-error", where, "the outermost call returned %s", core.Trunc(lsErrDesc(rec.err), 300))
		} else if aborted {
			return fail("interrupt-error", "depth-limit", "the call-depth limit %d was exceeded inside the macrotask but the outermost call returned normally", rec.faultPos)
		}

		if rec.err == nil && !aborted && m.thrown != "" {
			return fail("unexpected-error", where+" lost-exception", "the synchronous part ended with an uncaught exception (%s) but the outermost call returned normally", m.thrown)
		}
		// (3) the queue is empty when control is back in Go, however the outermost call ended
		if rec.jobQueue != 0 {
			how := "normally"
			if rec.err != nil {
				how = "with " + core.Trunc(lsErrDesc(rec.err), 80)
			}
			return fail("queue-not-empty-at-return", where, "jobQueue still holds %d jobs after the outermost call returned %s (events so far: %s; the specification's job queue gives: %s)", rec.jobQueue, how, strings.Join(rec.events, " "), strings.Join(m.events, " "))
		}
		// (1) global order of events, (2) exactly once
		if d := lsDiverge(rec.events, m.events); d >= 0 {
			rule, ctx := lsClassify(rec.events, m.events, d)
			if aborted && len(rec.events) > len(m.events) && d == len(m.events) {
				rule = "interrupt-ran-dropped-job"
			}
			return fail(rule, where+" "+ctx, "event #%d: goja %s, the specification's job queue gives %s", d, lsAt(rec.events, d), lsAt(m.events, d))
		}
		if rec.jobQueue != 0 || len(m.queue) != 0 {
			return fail("queue-not-empty-at-return", where, "jobQueue holds %d jobs after the outermost call returned (model: %d)", rec.jobQueue, len(m.queue))
		}
		// (4) HostPromiseRejectionTracker
		if d := lsDiverge(rec.tracker, bad.modelTracker); d >= 0 {
			return fail("tracker-mismatch", where, "rejection tracker call #%d: goja %s, HostPromiseRejectionTracker prescribes %s", d, lsAt(rec.tracker, d), lsAt(bad.modelTracker, d))
		}
		// (5) promise states seen from Go
		for s, st := range rec.states {
			mp := m.slots[s]
			if (st.state < 0) != (mp == nil) {
				return fail("promise-state-mismatch", where+" existence", "slot %d: registered in goja %v, in the model %v", s, st.state >= 0, mp != nil)
			}
			if mp == nil {
				continue
			}
			if st.state != mp.state || st.state != psPending && st.result != m.desc(mp.result) {
				return fail("promise-state-mismatch", where, "promise P%d is %s(%s) in goja, %s(%s) in the model", s, psNames[st.state], st.result, psNames[mp.state], m.desc(mp.result))
			}
		}
		if count && (rec.fired || aborted) {
			res.Count("faults-fired", 1)
			switch {
			case rec.fault == lfTick:
				res.Count("fault.interrupt-at-tick", 1)
				if inJob {
					res.Count("interrupt-at-tick-in-job", 1)
				}
			case rec.fault == lfNative && inJob:
				res.Count("fault.interrupt-in-job", 1)
			case rec.fault == lfNative:
				res.Count("fault.interrupt-before-drain", 1)
			case rec.fault == lfDepth && inJob:
				res.Count("fault.depth-limit-in-job", 1)
			case rec.fault == lfDepth:
				res.Count("fault.depth-limit-before-drain", 1)
			}
		} else if count && rec.fault != lfNone {
			res.Count("fault-position-not-reached", 1)
		}
	}
	return nil
}

func lsAt(l []string, i int) string {
	if i < len(l) {
		return l[i]
	}
	return "<nothing more>"
}

func lsDiverge(got, want []string) int {
	for i := range got {
		if i >= len(want) || got[i] != want[i] {
			return i
		}
	}
	if len(got) != len(want) {
		return len(got)
	}
	return -1
}

// lsClassify names the disagreement between two event lists: a handler / probe id that ran more often than in the
// model, one that ran less often, or the same multiset in another order.
func lsClassify(got, want []string, d int) (rule, ctx string) {
	cnt := map[string]int{}
	key := func(ev string) string {
		if i := strings.IndexByte(ev, '('); i > 0 && (ev[0] == 'L' || ev[0] == 'N') {
			return ev[:i]
		}
		return ""
	}
	for _, ev := range got {
		if k := key(ev); k != "" {
			cnt[k]++
		}
	}
	for _, ev := range want {
		if k := key(ev); k != "" {
			cnt[k]--
		}
	}
	twice, missing, extra := false, false, false
	seen := map[string]int{}
	for _, ev := range got {
		if k := key(ev); k != "" && cnt[k] > 0 {
			extra = true
			if seen[k]++; seen[k] > 1 {
				twice = true // the same handler / probe ran more than once and more often than the model says
			}
		}
	}
	for _, ev := range want {
		if k := key(ev); k != "" && cnt[k] < 0 {
			missing = true
		}
	}
	kind := func(l []string) string {
		if d < len(l) {
			ev := l[d]
			for i := 0; i < len(ev); i++ {
				if ev[i] < 'A' || ev[i] > 'Z' {
					return ev[:i]
				}
			}
			return ev
		}
		return "end"
	}
	ctx = kind(got) + "/" + kind(want)
	switch {
	case twice:
		return "reaction-ran-twice", ctx
	case missing && !extra:
		return "reaction-missing", ctx
	}
	return "job-order", ctx
}

func (e *loopsim) render(p *lprog, src string, recs []*lsRec, bad *lsBad) string {
	var sb strings.Builder
	sb.WriteString("// ---- promise program (host natives: L log, B effect marker, Z = B at the end of the synchronous part, R/G promise table, SS/GS stashed resolvers, CT clearTimeout,\n//      goAsync/settleNow Go-side NewPromise, NH/NS handlers implemented in Go, D deep recursion marker)\n")
	sb.WriteString(src)
	for g, pl := range p.goPlan {
		fmt.Fprintf(&sb, "// goAsync(%d): first completion %s, second (if scheduled) %s\n", g, lsIntent(pl[0]), lsIntent(pl[1]))
	}
	sb.WriteString("// ---- macrotask schedule and history\n")
	for i, rec := range recs {
		fmt.Fprintf(&sb, "#%d t=%dms %s", i, rec.startedAt, lsTaskName(rec))
		switch rec.fault {
		case lfNative:
			fmt.Fprintf(&sb, "   FAULT Interrupt() inside host call %d%s", rec.faultPos, lsFromZ(rec.fromZ))
		case lfTick:
			fmt.Fprintf(&sb, "   FAULT Interrupt() at the first quiet VM tick > %d%s", rec.faultPos, lsFromZ(rec.fromZ))
		case lfDepth:
			fmt.Fprintf(&sb, "   FAULT SetMaxCallStackSize(%d)", rec.faultPos)
		}
		if rec.fired {
			fmt.Fprintf(&sb, " [raised after host call %d]", rec.firedAt)
		}
		if rec.panicked != "" {
			fmt.Fprintf(&sb, "\n    GO PANIC: %s", core.Trunc(rec.panicked, 300))
		}
		fmt.Fprintf(&sb, "\n    -> %s, %d VM ticks, jobQueue=%d\n    events : %s\n", core.Trunc(lsErrDesc(rec.err), 200), rec.ticks, rec.jobQueue, strings.Join(rec.events, " "))
		if len(rec.tracker) > 0 {
			fmt.Fprintf(&sb, "    tracker: %s\n", strings.Join(rec.tracker, ", "))
		}
		var st []string
		for s, x := range rec.states {
			if x.state == psPending {
				st = append(st, fmt.Sprintf("P%d pending", s))
			} else if x.state > 0 {
				st = append(st, fmt.Sprintf("P%d %s(%s)", s, psNames[x.state], x.result))
			}
		}
		fmt.Fprintf(&sb, "    states : %s\n", strings.Join(st, ", "))
		if bad != nil && bad.mt == i {
			fmt.Fprintf(&sb, "    <<<< DIVERGES [%s] %s\n    model events : %s\n    model tracker: %s\n", bad.rule, bad.msg, strings.Join(bad.modelEvents, " "), strings.Join(bad.modelTracker, ", "))
			break
		}
	}
	return sb.String()
}

func lsFromZ(b bool) string {
	if b {
		return " counted from the end of the synchronous part"
	}
	return ""
}

func lsIntent(in lgoIntent) string {
	w := "resolve"
	if in.rej {
		w = "reject"
	}
	switch in.val.k {
	case lvInt:
		return fmt.Sprintf("%s(%d)", w, in.val.n)
	case lvProm:
		return fmt.Sprintf("%s(<promise in slot %d>)", w, in.val.n)
	}
	return w + "(undefined)"
}
