package engines

import "verif/sim/core"

var realComponents = []string{"goja parser", "goja compiler", "goja VM", "all goja built-ins", "goja file/unistring/ftoa packages", "regexp engines", "Go runtime"}

func init() {
	core.Register(&core.Spec{
		Property: "C03", EngineName: "faultsim",
		New:       func(tier string) core.Engine { return &faultsim{prop: "C03", tier: tier} },
		QuickRuns: 40000, QuickCapS: 75, ThoroughRun: 1500000, ThoroughCap: 1500,
		Rule: "a case = (history of 1-6 outermost API calls over generated bodies, fault schedule); distinct = distinct tuple (fault kind, API kind, context path of the probe where it fired, in-flight summary: call depth bucket/open try/open iterator/native nesting/pending jobs/async) over the faults of the run; non-trivial = a fault fired while in-flight state existed (depth>1, open try, open iterator, native->JS nesting, pending jobs or async activation)",
		Real:      realComponents,
		Stub:      []string{"every host native function (probes P/Q/A, re-entry natives NR/NC/NF/NK/NO/NG/NN)", "the interrupting watchdog (raised from the tick hook / from inside a probe on the same goroutine)", "Math.random"},
		Assumptions: []string{
			"generated bodies keep all state inside the call (no global or captured writes), so a fresh runtime that ran the same history without faults is the 'completed effects only' twin",
			"host natives propagate uncatchable errors they receive from nested calls (panic or return); a host that swallows an InterruptedError is outside the property",
			"Try/ForOf/Object.Get/New used as outermost entry points receive catchable faults only (they are not script-running entry points that drain jobs or clear interrupts)",
			"idle-state invariant excludes pc, prg and stack==nil, which are stale after clean runs too",
		},
		FaultKinds: []string{"throw-prim", "throw-error", "throw-exception", "goerr", "intr", "tick-intr", "depth", "foreign", "idle-intr", "idle-intr-then-clear"},
	})
}
