package engines

import "verif/sim/core"

var realComponents = []string{"goja parser", "goja compiler", "goja VM", "all goja built-ins", "goja file/unistring/ftoa packages", "regexp engines", "Go runtime"}

func init() {
	core.Register(&core.Spec{
		Property: "C03", EngineName: "faultsim",
		New:       func(tier string) core.Engine { return &faultsim{prop: "C03", tier: tier} },
		QuickRuns: 40000, QuickCapS: 75, ThoroughRun: 1500000, ThoroughCap: 1500,
		Rule: "a case = (history of 1-6 outermost API calls over generated bodies, fault schedule); distinct = distinct tuple (fault kind, API kind, context path of the probe where it fired, in-flight summary: call depth bucket/open try/open iterator/native nesting/pending jobs/async) over the faults of the run; non-trivial = a fault fired while in-flight state existed (depth>1, open try, open iterator, native->JS nesting, pending jobs or async activation)",
		Real: realComponents,
		Stub: []string{"every host native function (probes P/Q/A, re-entry natives NR/NC/NF/NK/NO/NG/NN)", "the interrupting watchdog (raised from the tick hook / from inside a probe on the same goroutine)", "Math.random"},
		Assumptions: []string{
			"generated bodies keep all state inside the call (no global or captured writes), so a fresh runtime that ran the same history without faults is the 'completed effects only' twin",
			"host natives propagate uncatchable errors they receive from nested calls (panic or return); a host that swallows an InterruptedError is outside the property",
			"Try/ForOf/Object.Get/New used as outermost entry points receive catchable faults only (they are not script-running entry points that drain jobs or clear interrupts)",
			"idle-state invariant excludes pc, prg and stack==nil, which are stale after clean runs too",
		},
		FaultKinds: []string{"throw-prim", "throw-error", "throw-exception", "goerr", "intr", "tick-intr", "depth", "foreign", "idle-intr", "idle-intr-then-clear"},
	})
	core.Register(&core.Spec{
		Property: "C15", EngineName: "faultsim+watchdog (race build)", Race: true,
		New:       func(tier string) core.Engine { return &faultsim{prop: "C15", tier: tier, async: true} },
		QuickRuns: 12000, QuickCapS: 90, ThoroughRun: 600000, ThoroughCap: 1500,
		Rule: "a case = (history of 1-6 outermost API calls over generated bodies, interrupt schedule); interrupts are raised inside a probe, from the per-instruction tick hook, or by a real second goroutine released at a chosen VM tick through a happens-before-transparent baton (binary built with -race); distinct = distinct tuple (interrupt kind, API kind, context path of the last probe before the raise, in-flight summary); non-trivial = the interrupt landed while in-flight state existed",
		Real: append(append([]string{}, realComponents...), "Go race detector", "real second goroutine calling Runtime.Interrupt"),
		Stub: []string{"every host native function", "the moment the watchdog goroutine runs (chosen by the tape, serialised with raw pipe syscalls that add no happens-before edge)", "Math.random"},
		Assumptions: []string{
			"interleaving granularity is the VM instruction: the watchdog runs between two instructions, never in the middle of one",
			"the race detector keeps a bounded access history per memory word; a clean batch is evidence, not proof",
			"host natives propagate uncatchable errors they receive from nested calls",
			"bound B on instructions executed after Interrupt() is 100000 (the property says bounded, not immediate)",
		},
		FaultKinds: []string{"intr", "tick-intr", "async-intr", "idle-intr", "idle-intr-then-clear", "idle-async-intr", "idle-async-intr-then-clear"},
	})
}
