package engines

import (
	"fmt"
	"math"
	"math/big"
	"strconv"
	"strings"
)

// apply advances the model by one operation as ECMA-262 specifies it for a run WITHOUT a mid-operation fault, and
// returns what the step must produce. Buffers detached in earlier steps follow the detached-buffer rules.

func okVal(v jv) []string      { return []string{"=" + v.desc()} }
func okStr(s string) []string  { return []string{"=" + strconv.Quote(s)} }
func throws(n string) []string { return []string{"!" + n} }

var (
	typeErr  = throws("TypeError")
	rangeErr = throws("RangeError")
)

func (m *bmodel) newBuf(n int, slot int) *mbuf {
	return &mbuf{id: -1, data: make([]byte, n)} // gets its slot number when the step result is registered
}

func bufTag(b *mbuf) string {
	if b.id < 0 {
		return "B?"
	}
	return "B" + strconv.Itoa(b.id)
}

func (v *mview) header() string {
	kind := "DataView"
	if !v.dv {
		kind = etName[v.et] + "Array"
	}
	if !v.live() {
		return kind + "[" + bufTag(v.buf) + ",off=0,len=0,buf=0]"
	}
	return fmt.Sprintf("%s[%s,off=%d,len=%d,buf=%d]", kind, bufTag(v.buf), v.off, v.n, len(v.buf.data))
}

func (v *mview) fullDesc() string {
	var sb strings.Builder
	sb.WriteString(v.header())
	sb.WriteByte('{')
	if !v.dv {
		for i := 0; i < v.length(); i++ {
			if i > 0 {
				sb.WriteByte(',')
			}
			sb.WriteString(v.get(i).desc())
		}
	}
	sb.WriteByte('}')
	return sb.String()
}

func sameObj(v *mview) []string { return []string{"=@V" + strconv.Itoa(v.id) + ":" + v.fullDesc()} }

// freshTA creates the model of a typed array allocated by the engine itself (own zero-initialised buffer).
func (m *bmodel) freshTA(o *bop, et, n int) *mview {
	b := m.newBuf(n*etSize[et], o.resBuf)
	return &mview{id: o.res, buf: b, et: et, n: n, hook: o.resHk}
}

// speciesTA is TypedArraySpeciesCreate / TypedArrayCreateFromCtor with a single length argument: normally a fresh
// array; when the species constructor of this step hands out something else (m.alias) that object is validated the
// way the spec does: ok=false (TypeError) if it is shorter than requested.
func (m *bmodel) speciesTA(o *bop, et, n int) (*mview, bool) {
	a := m.alias
	if a == nil {
		return m.freshTA(o, et, n), true
	}
	if a.n < n {
		return nil, false
	}
	if a.buf == nil {
		return m.freshTA(o, et, a.n), true
	}
	return &mview{id: -1, buf: a.buf, off: a.off, n: a.n, et: et}, true
}

func newObj(e *expect, v *mview) {
	e.newView = v
	e.newBuf = v.buf
	e.outcomes = []string{"=new:" + v.fullDesc()}
}

func cbEvent(site int, x jv) string { return fmt.Sprintf("P%d:%s", site, x.desc()) }

func (m *bmodel) apply(o *bop) (e expect) {
	vs, bs := o.uses(m)
	for _, i := range vs {
		if i >= len(m.views) || m.views[i].absent {
			e.skip = true
			return
		}
	}
	for _, i := range bs {
		if i >= len(m.bufs) || m.bufs[i].absent {
			e.skip = true
			return
		}
	}
	var v, v2 *mview
	if len(vs) > 0 {
		v = m.views[o.v]
		if o.kind == boNewFromTA || o.kind == boFrom {
			v = nil
		}
	}
	switch o.kind {
	case boSetTA, boNewFromTA:
		v2 = m.views[o.v2]
	case boFrom:
		if !o.srcArr {
			v2 = m.views[o.v2]
		}
	}
	var b *mbuf
	if len(bs) > 0 {
		b = m.bufs[o.b]
	}
	if v != nil && !v.dv && v.atEnd() {
		m.count("view-at-buffer-end")
	}
	if v != nil && v.live() && v.n == 0 {
		m.count("zero-length-view-op")
	}
	if (v != nil && !v.live()) || (v2 != nil && !v2.live()) || (b != nil && b.detached && o.kind != boHostDetach) {
		m.count("op-on-detached-buffer")
	}

	switch o.kind {
	case boGet:
		e.outcomes = okVal(v.get(int(o.a[0].f)))

	case boPut:
		if !v.set(int(o.a[0].f), o.val.v) {
			e.outcomes = typeErr
			return
		}
		e.outcomes = okVal(jNum(0))

	case boProps:
		if v.dv {
			if !v.live() {
				e.outcomes = typeErr
				return
			}
			e.outcomes = okStr(fmt.Sprintf("%d/%d", v.off, v.n))
			return
		}
		if !v.live() {
			e.outcomes = okStr("0/0/0")
			return
		}
		e.outcomes = okStr(fmt.Sprintf("%d/%d/%d", v.n, v.off, v.byteLen()))

	case boFill:
		if !v.live() {
			e.outcomes = typeErr
			return
		}
		raw, ok, isNaN := numericToRaw(v.et, o.val.v)
		if !ok {
			e.outcomes = typeErr
			return
		}
		k, fin := relIndex(o.a[0].val(0), v.n), relIndex(o.a[1].val(float64(v.n)), v.n)
		for ; k < fin; k++ {
			v.putRaw(k, raw, isNaN)
		}
		e.outcomes = sameObj(v)

	case boSetArr:
		off := toIntegerOrInf(o.a[0].val(0))
		if off < 0 {
			e.outcomes = rangeErr
			return
		}
		if !v.live() {
			e.outcomes = typeErr
			return
		}
		if float64(len(o.vals))+off > float64(v.n) {
			e.outcomes = rangeErr
			return
		}
		for i, x := range o.vals {
			if !v.set(int(off)+i, x.v) {
				e.outcomes = typeErr
				return
			}
		}
		e.outcomes = okVal(jUndef)

	case boSetTA:
		off := toIntegerOrInf(o.a[0].val(0))
		if off < 0 {
			e.outcomes = rangeErr
			return
		}
		if !v.live() || !v2.live() {
			e.outcomes = typeErr
			return
		}
		mismatch := etBig(v.et) != etBig(v2.et)
		tooBig := float64(v2.n)+off > float64(v.n)
		switch {
		case mismatch && tooBig:
			// ECMA-262 checks the content type first, goja the range first: either error is accepted
			e.outcomes = []string{"!TypeError", "!RangeError"}
			return
		case mismatch && v2.n == 0:
			// spec: TypeError; an element-wise implementation finds nothing to convert. No bytes involved: both accepted.
			e.outcomes = []string{"!TypeError", "=undefined"}
			return
		case mismatch:
			e.outcomes = typeErr
			return
		case tooBig:
			e.outcomes = rangeErr
			return
		}
		if v.buf == v2.buf && v2.n > 0 {
			lo1, hi1 := v.off+int(off)*v.size(), v.off+(int(off)+v2.n)*v.size()
			lo2, hi2 := v2.off, v2.off+v2.byteLen()
			if lo1 < hi2 && lo2 < hi1 {
				m.count("overlapping-set")
				if lo1 > lo2 {
					m.count("overlapping-set-forward")
				} else if lo1 < lo2 {
					m.count("overlapping-set-backward")
				}
				if v.et != v2.et {
					m.count("overlapping-set-different-type")
				}
			}
		}
		// the source is read completely before anything is written (CloneArrayBuffer when the buffers are the same)
		if v.et == v2.et {
			snap := append([]byte(nil), v2.buf.data[v2.off:v2.off+v2.byteLen()]...)
			dst := v.off + int(off)*v.size()
			v.buf.touch(dst, dst+len(snap))
			copy(v.buf.data[dst:], snap)
		} else {
			vals := v2.values()
			for i, x := range vals {
				v.set(int(off)+i, x)
			}
		}
		e.outcomes = okVal(jUndef)

	case boCopyWithin:
		if !v.live() {
			e.outcomes = typeErr
			return
		}
		n := v.n
		to, from, fin := relIndex(o.a[0].val(0), n), relIndex(o.a[1].val(0), n), relIndex(o.a[2].val(float64(n)), n)
		cnt := min(fin-from, n-to)
		if cnt > 0 {
			sz := v.size()
			snap := append([]byte(nil), v.buf.data[v.off+from*sz:v.off+(from+cnt)*sz]...)
			v.buf.touch(v.off+to*sz, v.off+(to+cnt)*sz)
			copy(v.buf.data[v.off+to*sz:], snap)
		}
		e.outcomes = sameObj(v)

	case boSlice:
		if !v.live() {
			e.outcomes = typeErr
			return
		}
		k, fin := relIndex(o.a[0].val(0), v.n), relIndex(o.a[1].val(float64(v.n)), v.n)
		cnt := max(fin-k, 0)
		r, ok := m.speciesTA(o, v.et, cnt)
		if !ok {
			e.outcomes = typeErr
			return
		}
		// same element type: the bytes are transferred one at a time in ascending order (observable when the species
		// constructor returned a view over the same buffer that starts inside the source range)
		src, dst := v.off+k*v.size(), r.off
		r.buf.touch(dst, dst+cnt*v.size())
		for i := 0; i < cnt*v.size(); i++ {
			r.buf.data[dst+i] = v.buf.data[src+i]
		}
		newObj(&e, r)

	case boSubarray:
		if !v.live() {
			e.outcomes = typeErr
			return
		}
		bg, en := relIndex(o.a[0].val(0), v.n), relIndex(o.a[1].val(float64(v.n)), v.n)
		r := &mview{id: o.res, buf: v.buf, off: v.off + bg*v.size(), n: max(en-bg, 0), et: v.et, hook: o.resHk}
		e.newView = r
		e.outcomes = []string{"=new:" + r.fullDesc()}

	case boSort, boToSorted, boReverse, boToReversed:
		if !v.live() {
			e.outcomes = typeErr
			return
		}
		raws := make([]uint64, v.n)
		for i := range raws {
			raws[i] = v.raw(i)
		}
		if o.mut.kind == muDetach && o.sub > 0 && v.n >= 2 && (o.kind == boSort || o.kind == boToSorted) {
			// the comparator lets the host detach the buffer when it is first called (any sort of >= 2 elements calls it).
			// The values were read into a list before sorting; writing the sorted list back into a detached buffer is a
			// no-op (sort), the copy made by toSorted is unaffected.
			m.applyMut(o)
			if o.kind == boSort {
				e.outcomes = sameObj(v)
				return
			}
		}
		if o.kind == boSort || o.kind == boToSorted {
			sortRaw(v.et, raws, o.sub == 2)
		} else {
			for i, j := 0, len(raws)-1; i < j; i, j = i+1, j-1 {
				raws[i], raws[j] = raws[j], raws[i]
			}
		}
		dst := v
		if o.kind == boToSorted || o.kind == boToReversed {
			dst = m.freshTA(o, v.et, v.n)
		}
		for i, r := range raws {
			dst.putRaw(i, r, etFloat(v.et) && rawToNumeric(v.et, r).isNaN())
		}
		if dst == v {
			e.outcomes = sameObj(v)
		} else {
			newObj(&e, dst)
		}

	case boIndexOf:
		if !v.live() {
			e.outcomes = typeErr
			return
		}
		n := v.n
		notFound := jNum(-1)
		if o.sub == 2 {
			notFound = jBool(false)
		}
		found := func(i int) {
			if o.sub == 2 {
				e.outcomes = okVal(jBool(true))
			} else {
				e.outcomes = okVal(jNum(float64(i)))
			}
		}
		e.outcomes = okVal(notFound)
		if n == 0 {
			return
		}
		eq := strictEq
		if o.sub == 2 {
			eq = sameValueZero
		}
		if o.sub == 1 {
			k := n - 1
			if !o.a[0].omit {
				r := toIntegerOrInf(o.a[0].f)
				switch {
				case math.IsInf(r, -1):
					return
				case r >= 0:
					k = int(math.Min(r, float64(n-1)))
				default:
					k = n + int(math.Max(r, float64(-n-1)))
				}
			}
			for ; k >= 0; k-- {
				if eq(v.get(k), o.val.v) {
					found(k)
					return
				}
			}
			return
		}
		r := toIntegerOrInf(o.a[0].val(0))
		if math.IsInf(r, 1) {
			return
		}
		k := 0
		if r >= 0 {
			k = int(math.Min(r, float64(n)))
		} else if !math.IsInf(r, -1) {
			k = max(n+int(math.Max(r, float64(-n))), 0)
		}
		for ; k < n; k++ {
			if eq(v.get(k), o.val.v) {
				found(k)
				return
			}
		}

	case boJoin:
		if !v.live() {
			e.outcomes = typeErr
			return
		}
		sep := ","
		if o.sep == 1 {
			sep = ";"
		}
		parts := make([]string, v.n)
		for i := range parts {
			parts[i] = v.get(i).jsToString()
		}
		e.outcomes = okStr(strings.Join(parts, sep))

	case boAt:
		if !v.live() {
			e.outcomes = typeErr
			return
		}
		r := toIntegerOrInf(o.a[0].f)
		if r < 0 {
			r += float64(v.n)
		}
		if r < 0 || r >= float64(v.n) {
			e.outcomes = okVal(jUndef)
			return
		}
		e.outcomes = okVal(v.get(int(r)))

	case boWith:
		if !v.live() {
			e.outcomes = typeErr
			return
		}
		r := toIntegerOrInf(o.a[0].f)
		if r < 0 {
			r += float64(v.n)
		}
		raw, ok, isNaN := numericToRaw(v.et, o.val.v)
		if !ok {
			e.outcomes = typeErr
			return
		}
		if r < 0 || r >= float64(v.n) {
			e.outcomes = rangeErr
			return
		}
		dst := m.freshTA(o, v.et, v.n)
		copy(dst.buf.data, v.buf.data[v.off:v.off+v.byteLen()])
		dst.putRaw(int(r), raw, isNaN)
		newObj(&e, dst)

	case boIter:
		m.applyIter(o, v, &e)

	case boNewFromBuf:
		sz := etSize[o.et]
		off, ok := toIndex(o.a[0].val(0))
		if !ok || off%int64(sz) != 0 {
			e.outcomes = rangeErr
			return
		}
		var n int64
		if !o.a[1].omit {
			if n, ok = toIndex(o.a[1].f); !ok {
				e.outcomes = rangeErr
				return
			}
		}
		if b.detached {
			e.outcomes = typeErr
			return
		}
		bl := int64(len(b.data))
		if o.a[1].omit {
			if bl%int64(sz) != 0 || off > bl {
				e.outcomes = rangeErr
				return
			}
			n = (bl - off) / int64(sz)
		} else if off+n*int64(sz) > bl {
			e.outcomes = rangeErr
			return
		}
		r := &mview{id: o.res, buf: b, off: int(off), n: int(n), et: o.et, hook: o.resHk}
		e.newView = r
		e.outcomes = []string{"=new:" + r.fullDesc()}

	case boNewFromTA:
		if !v2.live() {
			e.outcomes = typeErr
			return
		}
		if etBig(o.et) != etBig(v2.et) {
			if v2.n == 0 {
				e.outcomes = []string{"!TypeError", "=new:" + m.freshTA(o, o.et, 0).fullDesc()} // see boSetTA
				return
			}
			e.outcomes = typeErr
			return
		}
		dst := m.freshTA(o, o.et, v2.n)
		if o.et == v2.et {
			copy(dst.buf.data, v2.buf.data[v2.off:v2.off+v2.byteLen()])
		} else {
			for i, x := range v2.values() {
				dst.set(i, x)
			}
		}
		newObj(&e, dst)

	case boNewLen:
		n, ok := toIndex(o.a[0].f)
		if !ok {
			e.outcomes = rangeErr
			return
		}
		newObj(&e, m.freshTA(o, o.et, int(n)))

	case boNewArr, boOf:
		dst, ok := m.freshTA(o, o.et, len(o.vals)), true
		if o.kind == boOf && o.ctorHk {
			dst, ok = m.speciesTA(o, o.et, len(o.vals))
		}
		if !ok {
			e.outcomes = typeErr
			return
		}
		for i, x := range o.vals {
			if !dst.set(i, x.v) {
				e.outcomes = typeErr
				return
			}
		}
		newObj(&e, dst)

	case boFrom:
		var vals []jv
		if o.srcArr {
			for _, x := range o.vals {
				vals = append(vals, x.v)
			}
		} else {
			if !v2.live() {
				e.outcomes = typeErr
				return
			}
			vals = v2.values()
		}
		dst, ok := m.freshTA(o, o.et, len(vals)), true
		if o.ctorHk {
			dst, ok = m.speciesTA(o, o.et, len(vals))
		}
		if !ok {
			e.outcomes = typeErr
			return
		}
		e.cb = []string{}
		for i, x := range vals {
			if o.srcArr && o.vals[i].probe && o.sub == 0 {
				// the element is an object; it is coerced when stored
			}
			if o.sub > 0 {
				if o.srcArr && o.vals[i].probe {
					e.cb = nil // the callback receives the probe object itself: not rendered
				} else if e.cb != nil {
					e.cb = append(e.cb, cbEvent(o.site(slCb), x))
				}
				if o.mut.kind != muNone && i == o.mut.at && !m.applyMut(o) {
					e.outcomes = typeErr
					return
				}
				if o.sub == 2 {
					x = negate(x)
				}
			}
			if !dst.set(i, x) {
				e.outcomes = typeErr
				return
			}
		}
		if o.sub == 0 {
			e.cb = nil
		}
		newObj(&e, dst)

	case boNewDV:
		off, ok := toIndex(o.a[0].val(0))
		if !ok {
			e.outcomes = rangeErr
			return
		}
		if b.detached {
			e.outcomes = typeErr
			return
		}
		bl := int64(len(b.data))
		if off > bl {
			e.outcomes = rangeErr
			return
		}
		n := bl - off
		if !o.a[1].omit {
			if n, ok = toIndex(o.a[1].f); !ok || off+n > bl {
				e.outcomes = rangeErr
				return
			}
		}
		r := &mview{id: o.res, buf: b, off: int(off), n: int(n), dv: true}
		e.newView = r
		e.outcomes = []string{"=new:" + r.fullDesc()}

	case boDVGet, boDVSet:
		sz := etSize[o.et]
		idx, ok := toIndex(o.a[0].f)
		if !ok {
			e.outcomes = rangeErr
			return
		}
		var raw uint64
		var isNaN bool
		if o.kind == boDVSet {
			if raw, ok, isNaN = numericToRaw(o.et, o.val.v); !ok {
				e.outcomes = typeErr
				return
			}
		}
		if !v.live() {
			e.outcomes = typeErr
			return
		}
		if idx+int64(sz) > int64(v.n) {
			if idx+int64(sz) == int64(v.n)+1 {
				m.count("dataview-first-illegal-offset")
			}
			e.outcomes = rangeErr
			return
		}
		if idx+int64(sz) == int64(v.n) {
			m.count("dataview-last-legal-offset")
		}
		pos := v.off + int(idx)
		if o.kind == boDVGet {
			raw = v.buf.getRaw(pos, sz)
			if o.le != 1 {
				raw = swapBytes(raw, sz)
			}
			e.outcomes = okVal(rawToNumeric(o.et, raw))
			return
		}
		if o.le != 1 {
			raw = swapBytes(raw, sz)
		}
		v.buf.putRaw(pos, raw, sz, isNaN)
		e.outcomes = okVal(jUndef)

	case boBufSlice:
		if b.detached {
			// ECMA-262: TypeError. goja returns an empty buffer (reported as a conformance deviation, not a memory matter):
			// only memory safety and the other buffers are asserted for this step.
			e.outcomes = nil
			return
		}
		n := len(b.data)
		first, fin := relIndex(o.a[0].val(0), n), relIndex(o.a[1].val(float64(n)), n)
		nb := m.newBuf(max(fin-first, 0), o.resBuf)
		copy(nb.data, b.data[first:max(fin, first)])
		e.newBuf = nb
		e.outcomes = []string{"=new:" + descBuf(nb.data)}

	case boBufLen:
		e.outcomes = okVal(jNum(float64(b.blen())))

	case boKey:
		m.applyKey(o, v, &e)

	case boHostDetach:
		b.detached = true

	case boHostWrite:
		if !b.detached {
			off := int(o.a[0].f)
			b.touch(off, off+len(o.host))
			copy(b.data[off:], o.host)
		}
	}
	return
}

func descBuf(data []byte) string {
	return fmt.Sprintf("ArrayBuffer[%d]{%x}", len(data), data)
}

func negate(x jv) jv {
	switch x.k {
	case jvNum:
		return jNum(-x.f)
	case jvBig:
		return jBig(new(big.Int).Neg(x.b))
	}
	return jNum(math.NaN())
}
