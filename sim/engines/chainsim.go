package engines

import (
	"fmt"
	"math"
	"runtime"
	"strings"

	"github.com/dop251/goja"

	"verif/sim/core"
)

// chainsim (C14): the simulated party is the embedding host. The workload track draws a CHAIN of 1..8 frames from the
// outermost (entered by the host through one API kind) to the innermost, each a script frame or a host function of one
// calling convention; the schedule track draws the fault: what the innermost frame raises (a script throw of each value
// kind, a native panic with a Value / *Exception, a returned Go error, a foreign Go panic), or an interrupt raised inside
// the innermost native / at a chosen VM tick, or a call-depth limit. What every catch site, every native frame and the
// host must observe is predicted by the transfer model (chainsim_model.go); the uncatchable conditions are judged by
// prefix-of-counterfactual against a fault-free run of the same chain.

func init() {
	core.Register(&core.Spec{
		Property: "C14", EngineName: "chainsim",
		New:       func(tier string) core.Engine { return &chainsim{tier: tier} },
		QuickRuns: 40000, QuickCapS: 60, ThoroughRun: 2000000, ThoroughCap: 1200,
		Rule: "a case = (entry API kind, chain of 1-8 frames each one of 14 script frame kinds or 16 native calling conventions, payload kind raised by the innermost frame / interrupt tick / call-depth limit, what the Go-implemented return() and next() of every host iterator consumed by a for-of / destructuring frame or by an iterate()-based built-in (Array.from mapper, Set subclass add(), Promise.all resolve) do); distinct = distinct (entry, frame-kind sequence, payload kind); non-trivial = the chain has at least one native frame and the abrupt state crossed at least one script catch/finally frame",
		Real: realComponents,
		Stub: []string{"every native frame of the chain (host functions of each calling convention)", "the host-implemented iterators (objects made by Go whose [Symbol.iterator], next and return are Go functions)", "the catch/finally recorders C and F", "the raiser (innermost frame) and the interrupting watchdog (tick hook, same goroutine)"},
		Assumptions: []string{
			"host natives re-raise what they get from a nested call (panic(err) / return err / return fmt.Errorf(\"%w\")); the one swallowing host frame swallows *Exception only: a host that swallows an InterruptedError is outside the property",
			"an arbitrary Go error handed back by an ExportTo'd func(...) (T, error) (documented: the GoError's value) is returned reflect-style, never panicked with: a non-goja panic value is a foreign panic by definition",
			"events of frames below a promise-job frame are compared per job, not in global order: when a job runs relative to the frames above it is C10's matter",
			"Try+Object.Get as the outermost entry receives catchable payloads only, and chains with a promise-job frame are entered through a job-draining API",
			"stack top frame is asserted exactly only for script throws that reach the host without passing a catch-rethrow frame; otherwise only a non-empty stack",
			"*Exception pointer identity is asserted only when the raiser panicked with / returned an *Exception and no script catch or finally frame lies between it and the host",
			"ECMA-262 IteratorClose: an exception thrown by return() is ignored when the loop is left by a throw and replaces the completion when it is left by return/break or when a destructuring pattern ends; a non-goja panic in return() is not an exception and must reach the host in both cases; an iterator whose next() throws is not closed",
			"iterate()-based built-ins (IfAbruptCloseIterator): a throw from the per-element callback closes the iterator (return()'s own throw ignored) and goes on; an uncatchable condition, bare or wrapped through any %w chain, passes without return() / a generator's finally block running; a non-goja panic from the callback passes without return() being called, one raised by return() reaches the host",
			"Runtime.ForOf driven by a native frame over a script iterable: the step callback stops after the first value (return() is called, what it throws replaces the completion); a script exception leaving the step callback closes the iterator and goes on; an exception thrown by next() does not close it; an uncatchable condition (bare or %w-wrapped) or a foreign panic passes without return() running; when the step callback threw and return() throws too, the original exception wins, as in a for-of loop",
			"a foreign panic raised synchronously ends the outermost call before the promise job queue is drained: jobs pending at that point need not run",
			"after rt.Interrupt() inside a native that is not followed by any VM instruction the interrupt stays pending (documented: it only works while in JavaScript code); the host clears it before reusing the runtime",
		},
		FaultKinds: append(append([]string{}, chPayloadNames[1:]...), "iter-next-throw", "iter-return-panic-value", "iter-return-panic-exception", "iter-return-go-error",
			"iter-return-foreign-string", "iter-return-foreign-struct", "iter-return-foreign-runtime-error", "iter-return-interrupt", "iter-return-wrapped-overflow"),
	})
}

type chainsim struct{ tier string }

type chOutcome struct {
	v        goja.Value
	err      error
	panicked bool
	panicV   interface{}
	logs     [][]string
	ticks    int64
	maxDepth int
	run      *chRun
	reuse    string // "" or what went wrong when the runtime was used again
	pending  bool   // the interrupt flag was still set after the call returned
}

var curChain *chRun

func (e *chainsim) Run(t *core.Tape, want bool) *core.Result {
	res := &core.Result{}
	W, S := &t.W, &t.S

	// ---- workload: the chain -------------------------------------------------------------------------------------
	n := 1 + W.Draw(8)
	entry := W.Draw(nChainEntries)
	frames := make([]chFrame, n)
	hasJob, nNative := false, 0
	for i := range frames {
		frames[i] = chFrame{kind: chKindTable[W.Draw(len(chKindTable))], sel: W.Draw(nJobSel * nGenSel)}
		if frames[i].kind == cjJob && !frames[i].jobSync() {
			hasJob = true
		}
		if chIsNative(frames[i].kind) {
			nNative++
		}
	}
	// a %w-wrapping native frame directly below an iterate()-based built-in / a host-iterator loop, often enough
	for i := range frames {
		d := W.Draw(3)
		if i > 0 && d == 1 && (frames[i-1].kind == cjIterBuiltin || frames[i-1].kind == cjHostIter) {
			if chIsNative(frames[i].kind) {
				nNative--
			}
			frames[i].kind = cnReflectWrap
			nNative++
		}
	}
	wFlavour := W.Draw(3) // raiser flavour when the payload leaves the choice open

	// ---- schedule: the fault -------------------------------------------------------------------------------------
	payload := cpNone
	switch cat := S.Draw(16); {
	case cat == 0:
	case cat <= 4:
		payload = cpJsNumber + S.Draw(cpJsJobGoError-cpJsNumber+1+4)
		if payload > cpJsJobGoError {
			payload = cpJsEarlierGoError + (payload-cpJsJobGoError-1)%4 // the pre-created Error objects get double weight
		}
	case cat <= 7:
		payload = cpGoNumber + S.Draw(cpGoExceptionPrim-cpGoNumber+1)
	case cat <= 10:
		payload = cpErrSentinel + S.Draw(cpErrException-cpErrSentinel+1)
	case cat <= 12:
		payload = cpForeignString + S.Draw(cpForeignIndex-cpForeignString+1)
	default:
		payload = cpIntrNative + S.Draw(3)
	}
	faultPos := S.Draw(1 << 16) // tick / depth position, scaled to the fault-free run
	// what the Go-implemented return() / next() of the host iterators do (drawn for every frame position so that the tape
	// layout does not depend on the frame kinds)
	hasRetIntr, hasRetOvf, hasRetForeign := false, false, false
	for i := range frames {
		ra, na := chRetActTable[S.Draw(len(chRetActTable))], chNextActTable[S.Draw(len(chNextActTable))]
		if frames[i].kind == cnForOfStep {
			frames[i].sret = chSretOf(ra)
		}
		if frames[i].usesHostIter() {
			frames[i].retAct, frames[i].nextAct = ra, na
			hasRetIntr = hasRetIntr || ra == retInterrupt
			hasRetOvf = hasRetOvf || ra == retWrappedOverflow
			hasRetForeign = hasRetForeign || chRetForeign(ra)
		}
	}
	// the chain the transfer model sees: the uncatchable fault components taken out
	modelFrames := append([]chFrame(nil), frames...)
	for i := range modelFrames {
		if chRetUncatchable(modelFrames[i].retAct) {
			modelFrames[i].retAct = retNothing
		}
	}

	flavour := wFlavour
	switch {
	case chPayloadJS(payload):
		flavour = crJS
	case chPayloadGoValue(payload), chPayloadForeign(payload), payload == cpIntrNative:
		flavour = crFunc
	case chPayloadGoErr(payload):
		flavour = crReflect
	}
	if entry == ceTryGet && (hasJob || hasRetIntr || hasRetOvf || hasRetForeign || !(payload == cpNone || chPayloadCatchable(payload))) {
		entry = ceRunProgram
	}

	src, raiserLine := chScript(frames, entry, payload, flavour)
	prog, cerr := goja.Compile("chain", src, false)
	if cerr != nil {
		panic("chainsim: generated script does not compile: " + cerr.Error() + "\n" + src)
	}

	var codes []string
	for _, f := range frames {
		c := chKindCodes[f.kind]
		switch f.kind {
		case cjJob:
			c += fmt.Sprint(f.sel % nJobSel)
		case cjGen:
			c += fmt.Sprint(f.sel % nGenSel)
		case cjHostIter:
			c += fmt.Sprintf("%d.%d.%d", f.sel%nIterSel, f.retAct, f.nextAct)
		case cjIterBuiltin:
			c += fmt.Sprintf("%d.%d.%d", f.sel%nBuiltinSel, f.retAct, f.nextAct)
		case cnForOfStep:
			c += fmt.Sprintf("%d.%d", f.sel%nFosSel, f.sret)
		}
		codes = append(codes, c)
	}
	shape := chEntryNames[entry] + ":" + strings.Join(codes, ">") + ">R" + fmt.Sprint(flavour)
	res.Sig = shape + " " + chPayloadNames[payload]

	prev := goja.VerifTick
	goja.VerifTick = func(rt *goja.Runtime) {
		if r := curChain; r != nil && r.rt == rt {
			r.tick()
		}
	}
	defer func() { goja.VerifTick = prev; curChain = nil }()

	exact := !chPayloadUncatch(payload) && !hasRetIntr && !hasRetOvf

	// exec runs the chain once on a fresh runtime. counterfactual: the uncatchable fault components are taken out (the
	// raiser's interrupt, the tick interrupt, the depth limit, interrupts raised by iterator return() methods).
	exec := func(counterfactual bool, tickAt int64, depthLimit int, measure bool) (out *chOutcome, aborted string) {
		rt := goja.New()
		rt.SetRandSource(func() float64 { return 0.5 })
		pl, fr := payload, frames
		if counterfactual {
			fr = modelFrames
			if chPayloadUncatch(pl) {
				pl = cpNone
			}
		}
		r := &chRun{rt: rt, frames: fr, n: n, entry: entry, payload: pl, flavour: flavour, logs: make([][]string, n+2),
			tickAt: tickAt, measureDepth: measure, maxTik: 200000, exact: exact || counterfactual, segOf: chSegments(frames)}
		if !counterfactual {
			r.armIntr = hasRetIntr || pl == cpIntrNative || pl == cpIntrTick
			r.armOvf = depthLimit >= 0 || hasRetOvf
		}
		r.gotUnc, r.enteredFos, r.doneFos = make([]bool, n+2), make([]bool, n+2), make([]bool, n+2)
		r.depthLimit = math.MaxInt32
		if depthLimit >= 0 {
			r.depthLimit = depthLimit
		}
		out = &chOutcome{run: r}
		defer func() {
			if x := recover(); x != nil {
				if ab, ok := x.(*chAbort); ok {
					aborted = ab.why
					return
				}
				panic(x)
			}
		}()
		r.prepareValues()
		root := r.rootState()
		r.m = chPredict(modelFrames, entry, root, r.iv)
		r.registerRecorders()
		for k := 1; k <= n; k++ {
			if chIsNative(frames[k-1].kind) {
				r.registerFrame(k)
			}
			if frames[k-1].usesHostIter() {
				r.registerIterator(k)
			}
		}
		if flavour != crJS {
			r.registerNativeRaiser()
		}
		if _, err := rt.RunProgram(prog); err != nil {
			panic("chainsim: setup script failed: " + err.Error())
		}
		curChain = r
		r.ticks = 0
		if depthLimit >= 0 {
			rt.SetMaxCallStackSize(depthLimit)
		}
		func() {
			defer func() {
				if x := recover(); x != nil {
					switch x.(type) {
					case *chAbort, *chHarnessBug:
						panic(x)
					}
					if er, ok := x.(error); ok && entry == ceExportPanic && isGojaError(er) {
						out.err = er // this gateway delivers exceptions by panicking (documented)
						return
					}
					out.panicked, out.panicV = true, x
				}
			}()
			switch entry {
			case ceRunProgram:
				out.v, out.err = rt.RunScript("entry", "f1()")
			case ceCallable:
				f, _ := goja.AssertFunction(rt.Get("f1"))
				out.v, out.err = f(goja.Undefined())
			case ceConstructor:
				c, ok := goja.AssertConstructor(rt.Get("E0"))
				if !ok {
					panic(&chHarnessBug{"E0 is not a constructor"})
				}
				var o *goja.Object
				if o, out.err = c(nil); out.err == nil {
					out.v = o.Get("v")
				}
			case ceExportErr:
				var f func() (goja.Value, error)
				if xerr := rt.ExportTo(rt.Get("f1"), &f); xerr != nil {
					panic(&chHarnessBug{"ExportTo: " + xerr.Error()})
				}
				out.v, out.err = f()
			case ceExportPanic:
				var f func() goja.Value
				if xerr := rt.ExportTo(rt.Get("f1"), &f); xerr != nil {
					panic(&chHarnessBug{"ExportTo: " + xerr.Error()})
				}
				out.v = f()
			case ceTryGet:
				o := rt.Get("EO").(*goja.Object)
				if ex := rt.Try(func() { out.v = o.Get("x") }); ex != nil {
					out.err = ex
				}
			}
		}()
		curChain = nil
		out.ticks, out.maxDepth, out.logs = r.ticks, r.maxDepth, r.logs
		res.Steps += r.ticks + r.steps
		rt.SetMaxCallStackSize(math.MaxInt32)
		out.pending = rt.VerifState().Interrupted
		if !out.panicked {
			// the runtime must be usable again (a pending interrupt that no VM instruction could observe is cleared first)
			if out.pending {
				rt.ClearInterrupt()
			}
			func() {
				defer func() {
					if x := recover(); x != nil {
						out.reuse = fmt.Sprintf("a later call panicked: %T", x)
					}
				}()
				if v, err := rt.RunString("1+1"); err != nil || v.ToInteger() != 2 {
					out.reuse = fmt.Sprintf("RunString(\"1+1\") gave %v, %s", v, chErrKind(err))
					return
				}
				idv, _ := rt.RunString("(function(x){ return x + 1; })")
				id, ok := goja.AssertFunction(idv)
				if !ok {
					out.reuse = "a later RunString did not produce a function"
					return
				}
				if v, err := id(goja.Undefined(), rt.ToValue(6)); err != nil || v.ToInteger() != 7 {
					out.reuse = fmt.Sprintf("a later Callable gave %v, %s", v, chErrKind(err))
				}
			}()
		}
		return
	}

	render := func(fo, cf *chOutcome) string {
		var sb strings.Builder
		fmt.Fprintf(&sb, "// entry: %s; payload raised by the innermost frame f%d: %s; chain (outermost first):\n", chEntryNames[entry], n+1, chPayloadNames[payload])
		for k, f := range frames {
			fmt.Fprintf(&sb, "//   f%d %s", k+1, chKindNames[f.kind])
			switch f.kind {
			case cjJob:
				fmt.Fprintf(&sb, " (variant %d)", f.sel%nJobSel)
			case cjGen:
				fmt.Fprintf(&sb, " (variant %d)", f.sel%nGenSel)
			case cnForOfStep:
				fmt.Fprintf(&sb, " (%s; next frame called by %s; script return() %s)", [...]string{"func(FunctionCall) Value, plain rt.ForOf", "func(Value) (Value, error), rt.Try around rt.ForOf"}[f.sel&fosReflect],
					[...]string{"the Go step callback", "the iterable's next()"}[(f.sel&fosInNext)/2], chSretNames[f.sret])
			case cjIterBuiltin:
				fmt.Fprintf(&sb, " (%s", chBuiltinSelNames[f.sel%nBuiltinSel])
				if f.usesHostIter() {
					fmt.Fprintf(&sb, "; native return(): %s; native next(): %s", chRetActNames[f.retAct], [...]string{"normal", "first call throws", "second call throws"}[f.nextAct])
				}
				sb.WriteString(")")
			case cjHostIter:
				fmt.Fprintf(&sb, " (%s; native return(): %s; native next(): %s)", chIterSelNames[f.sel%nIterSel], chRetActNames[f.retAct],
					[...]string{"normal", "first call throws", "second call throws"}[f.nextAct])
			}
			sb.WriteByte('\n')
		}
		fmt.Fprintf(&sb, "//   f%d raiser: %s\n", n+1, [...]string{"script function", "func(FunctionCall) Value", "func() (Value, error)"}[flavour])
		sb.WriteString(src)
		show := func(title string, o *chOutcome) {
			if o == nil {
				return
			}
			fmt.Fprintf(&sb, "---- %s: %s\n", title, chOutcomeDesc(o))
			for seg, l := range o.logs {
				if len(l) > 0 {
					fmt.Fprintf(&sb, "  log[seg %d]: %s\n", seg, strings.Join(l, " "))
				}
			}
		}
		show("run", fo)
		show("run of the same chain without the uncatchable fault components", cf)
		if fo != nil {
			sb.WriteString("---- model (without the uncatchable fault components):\n")
			for seg, l := range fo.run.m.logs {
				if len(l) > 0 {
					fmt.Fprintf(&sb, "  log[seg %d]: %s\n", seg, strings.Join(l, " "))
				}
			}
		}
		return sb.String()
	}

	// ---- counterfactual: the same chain and the same catchable / foreign faults, without the uncatchable components ----
	var cf *chOutcome
	if !exact {
		var ab string
		cf, ab = exec(true, -1, -1, payload == cpDepth)
		if ab != "" {
			res.OutOfScope = "counterfactual run: " + ab
			return res
		}
		// it is itself judged exactly by the model
		e.judgeExact(res, cf, cf.run.m, shape+" counterfactual", raiserLine, func() string { return render(cf, nil) })
		if res.Violation != nil {
			return res
		}
	}

	// ---- the faulted run ------------------------------------------------------------------------------------------
	tickAt, depthLimit := int64(-1), -1
	switch payload {
	case cpIntrTick:
		if cf.ticks > 0 {
			tickAt = int64(faultPos) % cf.ticks
		} // else: a chain of host functions only, no VM instruction at all: nothing to interrupt, the run is the fault-free run
	case cpDepth:
		depthLimit = faultPos % (cf.maxDepth + 2)
	}
	fo, ab := exec(false, tickAt, depthLimit, false)
	r := fo.run
	detail := func() string { return render(fo, cf) }
	if ab != "" {
		res.Fail("nontermination", res.Sig, "the chain did not finish within the step budget: "+ab, detail())
		return res
	}

	struck := !exact && !fo.panicked && chIsUncatchable(fo.err)
	if struck {
		e.judgeUncatchable(res, fo, cf, detail)
	} else {
		// no uncatchable condition reached the host: the run must BE the run without them
		e.judgeExact(res, fo, r.m, res.Sig, raiserLine, detail)
		if !exact && res.Violation == nil && !fo.panicked {
			switch {
			case r.tickAt >= 0:
				res.Fail("uncatchable-error-type", "uncatchable-error-type "+res.Sig, fmt.Sprintf("the call completed (%s) although Interrupt() was called at VM tick %d", chOutcomeDesc(fo), r.tickAt), detail())
			case r.ovfReturned:
				res.Fail("uncatchable-error-type", "uncatchable-error-type "+res.Sig, fmt.Sprintf("the call completed (%s) although an iterator's native return() handed back the (wrapped) StackOverflowError of its nested call: it was swallowed", chOutcomeDesc(fo)), detail())
			case r.intrRaised && !fo.pending:
				res.Fail("uncatchable-error-type", "uncatchable-error-type "+res.Sig, fmt.Sprintf("the call completed (%s) and the interrupt raised inside a native function is neither delivered nor pending", chOutcomeDesc(fo)), detail())
			case r.intrRaised:
				res.Count("interrupt-left-pending(no-vm-instruction-followed)", 1)
			}
		}
	}

	// ---- counters, signature ---------------------------------------------------------------------------------------
	for _, what := range r.iterFired {
		res.Count("fault."+what, 1)
	}
	if r.fired || (payload == cpDepth && struck) {
		res.Count("fault."+chPayloadNames[payload], 1)
	} else if payload != cpNone {
		res.Count("fault-not-reached", 1)
	}
	m := r.m
	abruptCrossed := false
	if !struck {
		cnt := func(b bool, name string) {
			if b {
				res.Count(name, 1)
			}
		}
		cnt(m.wrappedTwice, "wrapped-twice")
		cnt(m.crossRethrow, "catch-rethrow-crossed")
		cnt(m.crossFinally, "finally-crossed")
		cnt(m.swallowJS, "swallowed-by-js")
		cnt(m.swallowHost, "swallowed-by-host")
		cnt(m.crossJob, "promise-job-frame")
		cnt(m.crossProxy, "proxy-trap-frame")
		cnt(m.crossDynamic, "dynamic-object-frame")
		cnt(m.crossCtor, "constructor-frame")
		cnt(m.crossExport, "exportto-frame")
		cnt(m.iterClosedOnThrow, "host-iterator-closed-by-throw")
		cnt(m.iterClosedOnReturn, "host-iterator-closed-by-return/break")
		cnt(m.retThrowIgnored, "return()-throw-ignored-during-throw")
		cnt(m.retThrowReplaced, "return()-throw-replaces-normal-completion")
		cnt(m.retForeignOnThrow, "foreign-panic-in-return()-during-throw")
		cnt(m.retForeignOnReturn, "foreign-panic-in-return()-after-normal-completion")
		cnt(m.iterNotClosedAbrupt, "host-iterator-passed-by-foreign-panic")
		cnt(m.nextThrew, "host-iterator-next()-threw")
		cnt(m.rewrapped, "native-rewrapped-exception-with-NewGoError")
		cnt(m.rewrappedGoErr, "native-rewrapped-a-GoError-exception-with-NewGoError")
		cnt(m.forOfClosedOnThrow, "ForOf-step-closed-by-throw")
		cnt(m.forOfClosedOnStop, "ForOf-step-closed-by-stop")
		cnt(m.forOfPassedForeign, "ForOf-step-passed-by-foreign-panic")
		cnt(m.forOfNextThrew, "ForOf-next()-threw-not-closed")
		cnt(m.builtinClosedOnThrow, "iterate-builtin-closed-by-throw")
		cnt(m.builtinNotClosedAbrupt, "iterate-builtin-passed-by-foreign-panic")
		abruptCrossed = m.crossCatchOrFinally
	} else {
		for _, f := range frames {
			switch f.kind {
			case cjRethrow, cjFinally, cjBoth, cjSwallow, cjWrap:
				abruptCrossed = true
			}
		}
	}
	if struck {
		// an uncatchable error that a %w-wrapping native frame handed on went through an iterate()-based built-in above it
		for i, f := range frames {
			if f.kind != cjIterBuiltin {
				continue
			}
			for j := i + 1; j < n; j++ {
				if frames[j].kind == cnReflectWrap && r.gotUnc[j+1] {
					res.Count("wrapped-uncatchable-through-iterate-builtin", 1)
					i = n
					break
				}
			}
			if i == n {
				break
			}
		}
		if r.ovfReturned {
			res.Count("wrapped-overflow-from-native-return()", 1)
		}
		// an uncatchable condition struck below a native that drives rt.ForOf and unwound through ForOf
		for i, f := range frames {
			if f.kind != cnForOfStep {
				continue
			}
			if r.enteredFos[i+1] && !r.doneFos[i+1] {
				if chErrKind(fo.err) == "StackOverflowError" {
					res.Count("ForOf-step-passed-by-stack-overflow", 1)
				} else {
					res.Count("ForOf-step-passed-by-interrupt", 1)
				}
				break
			}
		}
	}
	if n == 8 {
		res.Count("chain-depth-8", 1)
	}
	if nNative >= 3 {
		res.Count("native-frames>=3", 1)
	}
	res.NonTrivial = nNative >= 1 && abruptCrossed
	if res.NonTrivial {
		res.Count("nontrivial-runs", 1)
	}

	var dl []string
	for seg, l := range fo.logs {
		dl = append(dl, fmt.Sprintf("%d|%s", seg, strings.Join(l, " ")))
	}
	dl = append(dl, chOutcomeDesc(fo))
	res.Digest = core.DigestLines(dl)
	if r.failRule != "" {
		res.Fail(r.failRule, r.failRule+" "+res.Sig, r.failMsg, detail())
	}
	if want {
		res.Sample = detail()
	}
	return res
}

// chOutcomeDesc renders the outcome of the outermost call without addresses.
func chOutcomeDesc(o *chOutcome) string {
	switch {
	case o.panicked:
		if re, ok := o.panicV.(runtime.Error); ok {
			return "host recovered a Go runtime error: " + re.Error()
		}
		if _, ok := o.panicV.(error); ok {
			return fmt.Sprintf("host recovered a panic with a %T", o.panicV)
		}
		return fmt.Sprintf("host recovered panic(%T %v)", o.panicV, o.panicV)
	case o.err != nil:
		if ex, ok := o.err.(*goja.Exception); ok {
			return "error *Exception carrying " + chClass(ex.Value())
		}
		return "error " + chErrKind(o.err)
	}
	if o.v == nil {
		return "normal nil"
	}
	if _, ok := o.v.(*goja.Object); ok {
		return "normal " + chClass(o.v)
	}
	return "normal " + o.v.String()
}

func chPrefixDiv(got, want []string) int {
	for i := range got {
		if i >= len(want) || got[i] != want[i] {
			return i
		}
	}
	return -1
}

// judgeExact compares a run with the transfer model's exact prediction.
func (e *chainsim) judgeExact(res *core.Result, fo *chOutcome, m *chModel, sig string, raiserLine int, detail func() string) {
	r := fo.run
	fail := func(rule, f string, a ...interface{}) {
		res.Fail(rule, rule+" "+sig, fmt.Sprintf(f, a...), detail())
	}
	if r.failRule != "" {
		fail(r.failRule, "%s", r.failMsg)
		return
	}
	// A foreign panic raised synchronously (by an iterator's return() above a promise frame) ends the call before the job
	// queue is drained: pending jobs never run. Otherwise a foreign panic raised inside a job surfaces when the queue is drained.
	final := m.in[0]
	syncForeign := final.kind == csForeign
	if m.deferred != nil && !syncForeign {
		final = *m.deferred
	}
	// ---- the outcome the host sees
	switch final.kind {
	case csForeign:
		if !fo.panicked {
			fail("foreign-panic-swallowed", "a non-goja panic raised in a native function did not reach the host: the call returned (%s)", chOutcomeDesc(fo))
			return
		}
		switch {
		case final.foreignRT != "":
			re, ok := fo.panicV.(runtime.Error)
			if !ok || !strings.Contains(re.Error(), final.foreignRT) {
				fail("foreign-panic-identity", "the host recovered %T, want the runtime.Error %q", fo.panicV, final.foreignRT)
				return
			}
		default:
			if _, isErr := final.foreign.(error); isErr {
				if er, ok := fo.panicV.(error); !ok || er != final.foreign.(error) {
					fail("foreign-panic-identity", "the host recovered %T, not the error value the native panicked with", fo.panicV)
					return
				}
			} else if fo.panicV != final.foreign {
				fail("foreign-panic-identity", "the host recovered %T %v, want %T %v", fo.panicV, fo.panicV, final.foreign, final.foreign)
				return
			}
		}
	case csNormal:
		if fo.panicked {
			fail("host-value-identity", "a Go panic reached the host (%s), the model predicts normal return of %q", chOutcomeDesc(fo), final.normal)
			return
		}
		if fo.err != nil {
			fail("host-value-identity", "the call failed with %s, the model predicts normal return of %q", chOutcomeDesc(fo), final.normal)
			return
		}
		if fo.v == nil || fo.v.String() != final.normal {
			fail("event-log-mismatch", "the call returned %s, the model predicts %q", chOutcomeDesc(fo), final.normal)
			return
		}
	case csThrow:
		if fo.panicked {
			fail("host-value-identity", "a Go panic reached the host (%s), the model predicts an *Exception carrying %s", chOutcomeDesc(fo), final.p.class)
			return
		}
		bare := r.entry == ceExportErr && final.p.hasGo
		r.checkErr("host ("+chEntryNames[r.entry]+")", fo.err, final.p, bare, func(c string) { res.Count(c, 1) })
		if r.failRule != "" {
			fail(r.failRule, "%s", r.failMsg)
			return
		}
		if ex, ok := fo.err.(*goja.Exception); ok {
			st := ex.Stack()
			if final.samePtr && ex != r.raisedExc {
				fail("host-value-identity", "the host got a different *Exception record than the one the native function panicked with / returned (no script catch in between)")
				return
			}
			if final.samePtr {
				res.Count("exception-pointer-checked", 1)
			}
			if final.someTop && len(st) == 0 {
				fail("stack-top-frame", "Exception.Stack() is empty")
				return
			}
			if final.strictTop {
				// the throw site: the raiser. For the Error subclass the constructor frame (which runs super()) comes first.
				i := 0
				if r.payload == cpJsCustomError && len(st) > 1 && st[0].Position().Line == 1 {
					i = 1 // the class constructor on line 1
				}
				if got, line := st[i].FuncName(), st[i].Position().Line; got != chFn(r.n+1) || line != raiserLine {
					fail("stack-top-frame", "top frame of Exception.Stack() is %s at line %d, the value was thrown in %s at line %d", got, line, chFn(r.n+1), raiserLine)
					return
				}
				res.Count("stack-top-frame-checked", 1)
				if chPayloadPreCreated(r.payload) {
					res.Count("precreated-error-stack-top-frame-checked", 1)
				}
			}
		}
	}
	// ---- the event log
	for seg := range m.logs {
		got, wantl := fo.logs[seg], m.logs[seg]
		if final.kind == csForeign && (m.deferred != nil && !syncForeign || syncForeign && seg > 0) {
			// where the job queue is drained decides which frames above the job are unwound by the panic, and jobs pending when
			// a synchronous foreign panic ends the call are not run: prefix only
			if d := chPrefixDiv(got, wantl); d >= 0 {
				fail("foreign-panic-swallowed", "script-visible code ran after a non-goja panic: segment %d event #%d is %s", seg, d, got[d])
				return
			}
			continue
		}
		if strings.Join(got, " ") != strings.Join(wantl, " ") {
			rule := "event-log-mismatch"
			// a missing or extra F event is the more specific finding
			gf, wf := 0, 0
			for _, x := range got {
				if x[0] == 'F' {
					gf++
				}
			}
			for _, x := range wantl {
				if x[0] == 'F' {
					wf++
				}
			}
			switch {
			case gf < wf:
				rule = "finally-skipped"
			case final.kind == csForeign:
				rule = "foreign-panic-swallowed"
			}
			fail(rule, "event log of segment %d is [%s], the model predicts [%s]", seg, strings.Join(got, " "), strings.Join(wantl, " "))
			return
		}
	}
	if !fo.panicked && fo.reuse != "" {
		fail("runtime-not-reusable", "%s", fo.reuse)
	}
}

// judgeUncatchable: an interrupt (raised inside the innermost native, at a VM tick, by an iterator's return()) or the
// call-depth limit struck and the host got an uncatchable error. cf: the run without these components.
func (e *chainsim) judgeUncatchable(res *core.Result, fo, cf *chOutcome, detail func() string) {
	r := fo.run
	fail := func(rule, f string, a ...interface{}) {
		res.Fail(rule, rule+" "+res.Sig, fmt.Sprintf(f, a...), detail())
	}
	if r.failRule != "" {
		fail(r.failRule, "%s", r.failMsg)
		return
	}
	// nothing script-visible may run because of the unwinding: every log segment is a prefix of the counterfactual one
	for seg := range fo.logs {
		if d := chPrefixDiv(fo.logs[seg], cf.logs[seg]); d >= 0 {
			fail("uncatchable-observed-by-script", "script-visible code ran because of an uncatchable condition: segment %d event #%d %s is not what the run without it does at that point (%s)", seg, d, fo.logs[seg][d], evAtS(cf.logs[seg], d))
			return
		}
	}
	if !r.checkUncatchable("host ("+chEntryNames[r.entry]+")", fo.err) {
		fail(r.failRule, "%s", r.failMsg)
		return
	}
	direct := false
	switch fo.err.(type) {
	case *goja.InterruptedError, *goja.StackOverflowError:
		direct = true
	}
	if !direct {
		if _, ovf := fo.err.(*goja.StackOverflowError); ovf || chErrKind(fo.err) == "StackOverflowError" {
			res.Count("overflow-through-wrapping-native", 1)
		} else {
			res.Count("interrupt-through-wrapping-native", 1)
		}
	}
	if r.nativeGotOvf {
		res.Count("overflow-inside-native-nested-call", 1)
	}
	if fo.pending {
		fail("runtime-not-reusable", "the interrupt flag is still set after the call returned the InterruptedError")
		return
	}
	if fo.reuse != "" {
		fail("runtime-not-reusable", "%s", fo.reuse)
	}
}

func evAtS(l []string, i int) string {
	if i < len(l) {
		return l[i]
	}
	return "<end of log>"
}
