package engines

import (
	"math"
	"math/big"
	"sort"
	"strconv"
	"strings"
)

// The value model of bufsim, written from ECMA-262 (NumericToRawBytes, RawBytesToNumeric, ToInt8..ToUint32,
// ToUint8Clamp, ToBigInt64/ToBigUint64, ToIntegerOrInfinity, ToIndex, Number::toString) and deliberately sharing no
// code with goja. All multi-byte values are little-endian in buffers (typed arrays on this platform); DataView
// accessors take an explicit endianness flag.

const (
	etU8 = iota
	etI8
	etU8C
	etI16
	etU16
	etI32
	etU32
	etF32
	etF64
	etBI64
	etBU64
	nElemTypes
)

var etName = [...]string{"Uint8", "Int8", "Uint8Clamped", "Int16", "Uint16", "Int32", "Uint32", "Float32", "Float64", "BigInt64", "BigUint64"}
var etSize = [...]int{1, 1, 1, 2, 2, 4, 4, 4, 8, 8, 8}

func etBig(t int) bool   { return t == etBI64 || t == etBU64 }
func etFloat(t int) bool { return t == etF32 || t == etF64 }

// ---- JS values ------------------------------------------------------------------------------------------------

const (
	jvUndef = iota
	jvNum
	jvBig
	jvBool
	jvNull
	jvStr
)

type jv struct {
	k int
	f float64
	b *big.Int
	s string
}

var jUndef = jv{k: jvUndef}

func jNum(f float64) jv  { return jv{k: jvNum, f: f} }
func jBig(b *big.Int) jv { return jv{k: jvBig, b: b} }
func jBool(b bool) jv    { return jv{k: jvBool, f: map[bool]float64{false: 0, true: 1}[b]} }
func jStr(s string) jv   { return jv{k: jvStr, s: s} }
func (v jv) isNaN() bool { return v.k == jvNum && math.IsNaN(v.f) }
func (v jv) truthy() bool {
	return (v.k == jvNum && v.f != 0 && !math.IsNaN(v.f)) || (v.k == jvBool && v.f != 0) || (v.k == jvBig && v.b.Sign() != 0) || (v.k == jvStr && v.s != "")
}

func numDesc(f float64) string {
	switch {
	case math.IsNaN(f):
		return "NaN"
	case math.IsInf(f, 1):
		return "Infinity"
	case math.IsInf(f, -1):
		return "-Infinity"
	case f == 0 && math.Signbit(f):
		return "-0"
	}
	return strconv.FormatFloat(f, 'g', -1, 64)
}

// desc is the canonical rendering used to compare a predicted value with the value goja produced.
func (v jv) desc() string {
	switch v.k {
	case jvUndef:
		return "undefined"
	case jvNull:
		return "null"
	case jvNum:
		return numDesc(v.f)
	case jvBig:
		return v.b.String() + "n"
	case jvBool:
		if v.f != 0 {
			return "true"
		}
		return "false"
	}
	return strconv.Quote(v.s)
}

// src renders the value as a JS expression.
func (v jv) src() string {
	switch v.k {
	case jvNum:
		s := numDesc(v.f)
		if strings.HasPrefix(s, "-") {
			return "(" + s + ")"
		}
		return s
	case jvBig:
		if v.b.Sign() < 0 {
			return "(" + v.b.String() + "n)"
		}
		return v.b.String() + "n"
	}
	return v.desc()
}

// toNumber is ToNumber for the value kinds the workload uses; ok=false means TypeError (BigInt).
func (v jv) toNumber() (float64, bool) {
	switch v.k {
	case jvNum, jvBool:
		return v.f, true
	case jvUndef:
		return math.NaN(), true
	case jvNull:
		return 0, true
	case jvBig:
		return 0, false
	}
	return math.NaN(), true // strings are not used as numeric operands by the workload
}

// toBigInt is ToBigInt; ok=false means TypeError (Number, undefined, null).
func (v jv) toBigInt() (*big.Int, bool) {
	switch v.k {
	case jvBig:
		return v.b, true
	case jvBool:
		return big.NewInt(int64(v.f)), true
	}
	return nil, false
}

// ---- numeric conversions --------------------------------------------------------------------------------------

// toIntegerOrInfinity: NaN -> 0, truncation, infinities kept.
func toIntegerOrInf(f float64) float64 {
	if math.IsNaN(f) {
		return 0
	}
	if math.IsInf(f, 0) {
		return f
	}
	t := math.Trunc(f)
	if t == 0 {
		return 0 // -0 -> +0
	}
	return t
}

// relIndex is the "relative index clamped to [0,len]" computation shared by fill/slice/subarray/copyWithin/...
func relIndex(f float64, n int) int {
	r := toIntegerOrInf(f)
	if r < 0 {
		if math.IsInf(r, -1) || float64(n)+r < 0 {
			return 0
		}
		return n + int(r)
	}
	if r > float64(n) {
		return n
	}
	return int(r)
}

// toIndex: integer in [0, 2^53-1] or ok=false (RangeError).
func toIndex(f float64) (int64, bool) {
	r := toIntegerOrInf(f)
	if r < 0 || r > 9007199254740991 {
		return 0, false
	}
	return int64(r), true
}

func toUintN(f float64, bits uint) uint64 {
	if math.IsNaN(f) || math.IsInf(f, 0) {
		return 0
	}
	m := math.Ldexp(1, int(bits))
	r := math.Mod(math.Trunc(f), m)
	if r < 0 {
		r += m
	}
	return uint64(r)
}

func toUint8Clamp(f float64) uint64 {
	if math.IsNaN(f) || f <= 0 {
		return 0
	}
	if f >= 255 {
		return 255
	}
	fl := math.Floor(f)
	switch {
	case fl+0.5 < f:
		return uint64(fl) + 1
	case f < fl+0.5:
		return uint64(fl)
	}
	if uint64(fl)%2 == 0 {
		return uint64(fl)
	}
	return uint64(fl) + 1
}

var bigMask64 = new(big.Int).SetUint64(math.MaxUint64)

// numericToRaw is NumericToRawBytes as a little-endian integer of etSize[t] bytes; ok=false: the value has the wrong
// numeric kind for the element type (TypeError from ToNumber / ToBigInt); isNaN: a float NaN was stored.
func numericToRaw(t int, v jv) (raw uint64, ok bool, isNaN bool) {
	if etBig(t) {
		b, ok := v.toBigInt()
		if !ok {
			return 0, false, false
		}
		return new(big.Int).And(b, bigMask64).Uint64(), true, false // And on negatives is two's complement: b mod 2^64
	}
	f, ok := v.toNumber()
	if !ok {
		return 0, false, false
	}
	switch t {
	case etU8, etI8:
		return toUintN(f, 8), true, false
	case etU8C:
		return toUint8Clamp(f), true, false
	case etI16, etU16:
		return toUintN(f, 16), true, false
	case etI32, etU32:
		return toUintN(f, 32), true, false
	case etF32:
		return uint64(math.Float32bits(float32(f))), true, math.IsNaN(f)
	}
	return math.Float64bits(f), true, math.IsNaN(f)
}

// rawToNumeric is RawBytesToNumeric.
func rawToNumeric(t int, raw uint64) jv {
	switch t {
	case etU8, etU8C:
		return jNum(float64(uint8(raw)))
	case etI8:
		return jNum(float64(int8(raw)))
	case etI16:
		return jNum(float64(int16(raw)))
	case etU16:
		return jNum(float64(uint16(raw)))
	case etI32:
		return jNum(float64(int32(raw)))
	case etU32:
		return jNum(float64(uint32(raw)))
	case etF32:
		return jNum(float64(math.Float32frombits(uint32(raw))))
	case etF64:
		return jNum(math.Float64frombits(raw))
	case etBI64:
		return jBig(big.NewInt(int64(raw)))
	}
	return jBig(new(big.Int).SetUint64(raw))
}

func swapBytes(raw uint64, size int) uint64 {
	var r uint64
	for i := 0; i < size; i++ {
		r = r<<8 | (raw>>(8*uint(i)))&0xff
	}
	return r
}

// jsNumToString is Number::toString(x, 10).
func jsNumToString(f float64) string {
	switch {
	case math.IsNaN(f):
		return "NaN"
	case f == 0:
		return "0"
	case math.IsInf(f, 1):
		return "Infinity"
	case math.IsInf(f, -1):
		return "-Infinity"
	}
	if f < 0 {
		return "-" + jsNumToString(-f)
	}
	e := strconv.FormatFloat(f, 'e', -1, 64) // d.ddde±xx, shortest digits that round-trip
	mant, exps, _ := strings.Cut(e, "e")
	digits := strings.Replace(mant, ".", "", 1)
	x, _ := strconv.Atoi(exps)
	n, k := x+1, len(digits)
	switch {
	case k <= n && n <= 21:
		return digits + strings.Repeat("0", n-k)
	case 0 < n && n <= 21:
		return digits[:n] + "." + digits[n:]
	case -6 < n && n <= 0:
		return "0." + strings.Repeat("0", -n) + digits
	}
	es := strconv.Itoa(n - 1)
	if n-1 > 0 {
		es = "+" + es
	}
	if k == 1 {
		return digits + "e" + es
	}
	return digits[:1] + "." + digits[1:] + "e" + es
}

func (v jv) jsToString() string {
	switch v.k {
	case jvNum:
		return jsNumToString(v.f)
	case jvBig:
		return v.b.String()
	case jvStr:
		return v.s
	}
	return v.desc()
}

// strictEq is IsStrictlyEqual for the kinds used; sameValueZero additionally equates NaN with NaN.
func strictEq(a, b jv) bool {
	if a.k != b.k {
		return false
	}
	switch a.k {
	case jvNum, jvBool:
		return a.f == b.f
	case jvBig:
		return a.b.Cmp(b.b) == 0
	case jvStr:
		return a.s == b.s
	}
	return true
}

func sameValueZero(a, b jv) bool {
	if a.isNaN() && b.isNaN() {
		return true
	}
	return strictEq(a, b)
}

// ---- buffers and views ----------------------------------------------------------------------------------------

type brange struct{ lo, hi int }

type mbuf struct {
	id       int
	data     []byte
	detached bool
	goOwned  bool // supplied by the host inside a guard-paged slab
	right    bool // slab placement
	hook     bool // constructor[Symbol.species] hook installed
	absent   bool // never came into existence in this pass (the creating step was faulted or skipped)
	nanCells []brange
	dirty    []brange // what the current step writes (or may write)
}

func (b *mbuf) blen() int {
	if b.detached {
		return 0
	}
	return len(b.data)
}

func (b *mbuf) touch(lo, hi int) {
	if hi <= lo {
		return
	}
	b.dirty = append(b.dirty, brange{lo, hi})
	// a write kills the NaN cells it overlaps (their bytes have been adopted from the engine already)
	k := b.nanCells[:0]
	for _, c := range b.nanCells {
		if c.hi <= lo || c.lo >= hi {
			k = append(k, c)
		}
	}
	b.nanCells = k
}

func (b *mbuf) putRaw(off int, raw uint64, size int, isNaN bool) {
	b.touch(off, off+size)
	for i := 0; i < size; i++ {
		b.data[off+i] = byte(raw >> (8 * uint(i)))
	}
	if isNaN {
		b.nanCells = append(b.nanCells, brange{off, off + size})
	}
}

func (b *mbuf) getRaw(off, size int) uint64 {
	var r uint64
	for i := size - 1; i >= 0; i-- {
		r = r<<8 | uint64(b.data[off+i])
	}
	return r
}

func (b *mbuf) inDirty(i int) bool {
	for _, r := range b.dirty {
		if i >= r.lo && i < r.hi {
			return true
		}
	}
	return false
}

// nanTolerant: position i lies in a cell into which the model stored a float NaN in this step; the engine may have
// stored any NaN there (payload-insensitive comparison).
func (b *mbuf) nanCellAt(i int) (brange, bool) {
	for _, c := range b.nanCells {
		if i >= c.lo && i < c.hi {
			return c, true
		}
	}
	return brange{}, false
}

type mview struct {
	id     int
	buf    *mbuf
	off    int // byte offset
	n      int // elements (typed array) or bytes (DataView)
	et     int
	dv     bool
	hook   bool
	absent bool
	props  map[string]jv // ordinary own properties (keys that are not canonical numeric strings)
}

func (v *mview) live() bool { return !v.buf.detached }
func (v *mview) length() int {
	if v.buf.detached {
		return 0
	}
	return v.n
}
func (v *mview) size() int { return etSize[v.et] }
func (v *mview) byteLen() int {
	if v.dv {
		return v.n
	}
	return v.n * etSize[v.et]
}
func (v *mview) atEnd() bool { return v.live() && v.n > 0 && v.off+v.byteLen() == len(v.buf.data) }

func (v *mview) get(i int) jv {
	if !v.live() || i < 0 || i >= v.n {
		return jUndef
	}
	return rawToNumeric(v.et, v.buf.getRaw(v.off+i*v.size(), v.size()))
}

func (v *mview) raw(i int) uint64 { return v.buf.getRaw(v.off+i*v.size(), v.size()) }

func (v *mview) putRaw(i int, raw uint64, isNaN bool) {
	v.buf.putRaw(v.off+i*v.size(), raw, v.size(), isNaN)
}

// set is TypedArraySetElement with an already type-checked value: writes iff the index is valid.
func (v *mview) set(i int, val jv) (ok bool) {
	raw, ok, isNaN := numericToRaw(v.et, val)
	if !ok {
		return false
	}
	if v.live() && i >= 0 && i < v.n {
		v.putRaw(i, raw, isNaN && etFloat(v.et))
	}
	return true
}

func (v *mview) values() []jv {
	out := make([]jv, v.length())
	for i := range out {
		out[i] = v.get(i)
	}
	return out
}

// typedLess is the default TypedArray sort order (a total order on values): numeric, -0 before +0, NaN last.
func typedLess(t int, a, b uint64) bool {
	x, y := rawToNumeric(t, a), rawToNumeric(t, b)
	if x.k == jvBig {
		return x.b.Cmp(y.b) < 0
	}
	xn, yn := math.IsNaN(x.f), math.IsNaN(y.f)
	if yn {
		return !xn
	}
	if xn {
		return false
	}
	if x.f == 0 && y.f == 0 {
		return math.Signbit(x.f) && !math.Signbit(y.f)
	}
	return x.f < y.f
}

// sortRaw sorts raw element values stably in the default order, or its reverse when desc is set (the probe
// comparator implements exactly that total order, so the result of any correct stable sort is determined).
func sortRaw(t int, raws []uint64, desc bool) {
	sort.SliceStable(raws, func(i, j int) bool {
		if desc {
			return typedLess(t, raws[j], raws[i])
		}
		return typedLess(t, raws[i], raws[j])
	})
}
