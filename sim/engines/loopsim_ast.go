package engines

import (
	"fmt"
	"strconv"
	"strings"

	"verif/sim/core"
)

// loopsim workload: a promise program is data. It is rendered to JavaScript (this file) for the real runtime and
// interpreted directly by the reference model (loopsim_model.go). The two walk the same tree in the same order, so
// the sequence of host calls (L, B, R, ...) they produce is comparable event by event.
//
// Rendering discipline (needed so that an interrupt raised at an arbitrary VM tick can be placed exactly in the model):
//   - all mutable program state (named promises, stashed resolvers, timer handles) lives in Go tables reached through
//     host natives, never in JS variables shared between functions;
//   - every promise-visible effect (a Promise API call, a call of a resolving function, an async call, an await, and
//     every exit of a function that was entered from Go: return / throw / falling off the end) is preceded by the host
//     call B(); between B() and the next host call the tick hook does not raise interrupts. Z() is B() at the end of
//     the synchronous part of a macrotask (everything after it in the same macrotask is promise jobs);
//   - the synchronous part of a client task or of a timer callback may end with an uncaught exception (ltail): the
//     outermost call then returns an *Exception, and the jobs queued so far still run before it returns.

// ---- values --------------------------------------------------------------------------------------------------

const (
	lvInt   = iota // a distinct small integer
	lvUndef        // undefined
	lvProm         // the promise registered in slot n (undefined if the slot is empty at that moment)
	lvThen         // a fresh object built from thenable spec n
	lvAsync        // the result of calling async function n right here
)

type lval struct{ k, n int }

// ---- thenables -----------------------------------------------------------------------------------------------

const (
	thNormal       = iota // then is a probe function
	thGetterThrows        // then is an accessor that throws
	thNonCallable         // then is not callable: the object is an ordinary value
)

type lthCall struct {
	rej   bool
	val   lval
	later int // <0: call synchronously inside then; else via setTimeout(later ms)
}

type lthenable struct {
	idx, id  int
	kind     int
	calls    []lthCall
	throwAt  int // 0 no, 1 before the calls, 2 after the calls
	throwVal int
}

// ---- handlers, operations, async functions -------------------------------------------------------------------

const (
	hJS = iota
	hNH // Go native handler that calls a JS function through goja.AssertFunction (nested-drain hazard shape)
	hNS // Go native handler that calls a Go-side resolver obtained from NewPromise
)

const (
	retVal = iota
	retNone
	retThrow
)

type lhandler struct {
	id, id2 int // id2: log id of the JS function wrapped by an hNH handler
	kind    int
	sk      byte
	body    []*lop
	ret     int
	val     lval
	g       int // hNS
	rej     bool
}

const (
	opNew = iota
	opThen
	opCatch
	opFinally
	opPResolve
	opPReject
	opComb
	opCallStash
	opAsyncCall
	opSetTimeout
	opClearTimeout
	opGoAsync
	opSettleNow
	opDeep
	opLog
	nLops
)

var lopNames = [...]string{"new", "then", "catch", "finally", "Promise.resolve", "Promise.reject", "combinator", "call-stashed", "async-call", "setTimeout", "clearTimeout", "goAsync", "settleNow", "deep", "log"}
var lopWeights = [...]int{6, 14, 3, 4, 2, 3, 5, 4, 5, 3, 1, 3, 2, 3, 0}

const (
	actSettle = iota
	actStash
	actThrow
	actSettleLater
)

type lact struct {
	kind  int
	rej   bool
	val   lval
	stash int
	ms    int
}

var combNames = [...]string{"all", "allSettled", "race", "any"}

type lop struct {
	kind   int
	id     int // log id (executor start, plain log)
	slot   int // slot of the promise this op creates (-1: none)
	tgt    int // slot of the promise it works on
	h1, h2 *lhandler
	exec   []lact
	val    lval
	items  []lval
	comb   int
	stash  int
	rej    bool
	ms     int
	key    int
	body   []*lop
	tail   ltail // opSetTimeout: how the callback ends
	g      int
	fn     int
}

const (
	asAwait = iota
	asTryAwait
	asOp
	asReturn
	asThrow
)

type lastmt struct {
	kind    int
	id, idc int
	val     lval
	op      *lop
}

type lasync struct {
	idx, id int
	body    []lastmt
}

// How the synchronous part of a macrotask (client task, timer callback) ends.
const (
	tailNone    = iota // returns normally
	tailThrow          // throw <value>
	tailGetter         // an accessor read at the top level throws
	tailTypeErr        // the VM raises a TypeError (null.x)
	tailRefErr         // the VM raises a ReferenceError (call of an undeclared name)
	tailNewErr         // throw new RangeError(...)
)

type ltail struct {
	kind, id int
	val      lval
}

type lgoIntent struct {
	rej bool
	val lval
}

type lprog struct {
	tasks    [][]*lop
	tails    []ltail // per client task
	thens    []*lthenable
	asyncs   []*lasync
	nGo      int
	goPlan   [][2]lgoIntent
	nSlots   int
	nStash   int
	nTimers  int
	nIDs     int
	siteKind []byte
	rootOf   []int // slot -> slot of the base promise its chain hangs off
}

// ---- generator -----------------------------------------------------------------------------------------------

const (
	lsMaxTop    = 12
	lsMaxNested = 10
	lsMaxBase   = 5
	lsMaxThens  = 8
	lsMaxAsyncs = 4
)

type lgen struct {
	W      *core.Track
	p      *lprog
	have   []int
	sure   []int // slots created by top-level operations of the client tasks (they exist unless a fault intervenes)
	top    bool
	base   int
	nested int
	ival   int
	goUsed []bool
	hazard bool
}

func (g *lgen) newID(kind byte) int {
	g.p.siteKind = append(g.p.siteKind, kind)
	g.p.nIDs++
	return g.p.nIDs - 1
}

func (g *lgen) newSlot(root int) int {
	s := g.p.nSlots
	g.p.nSlots++
	if root < 0 {
		root = s
		g.base++
	}
	g.p.rootOf = append(g.p.rootOf, root)
	g.have = append(g.have, s)
	if g.top {
		g.sure = append(g.sure, s)
	}
	return s
}

func (g *lgen) pick() int {
	if len(g.sure) > 0 && g.W.Draw(4) != 3 {
		return g.sure[g.W.Draw(len(g.sure))]
	}
	return g.have[g.W.Draw(len(g.have))]
}

func (g *lgen) intVal() lval {
	g.ival++
	return lval{lvInt, 10 + g.ival}
}

// genVal: 0 is a plain integer.
func (g *lgen) genVal(allowAsync bool, depth int) lval {
	switch g.W.Draw(10) {
	case 3:
		return lval{lvUndef, 0}
	case 4, 5, 6:
		if len(g.have) > 0 {
			return lval{lvProm, g.pick()}
		}
	case 7, 8:
		return lval{lvThen, g.genThenable()}
	case 9:
		if allowAsync && depth < 2 && len(g.p.asyncs) < lsMaxAsyncs {
			return lval{lvAsync, g.genAsync(depth + 1)}
		}
		if len(g.have) > 0 {
			return lval{lvProm, g.pick()}
		}
	}
	return g.intVal()
}

func (g *lgen) simpleVal() lval {
	switch g.W.Draw(6) {
	case 3:
		return lval{lvUndef, 0}
	case 4, 5:
		if len(g.have) > 0 {
			return lval{lvProm, g.pick()}
		}
	}
	return g.intVal()
}

func (g *lgen) genThenable() int {
	W := g.W
	if len(g.p.thens) >= lsMaxThens || (len(g.p.thens) > 0 && W.Draw(5) == 4) {
		return W.Draw(len(g.p.thens)) // the same thenable is used at a second place
	}
	t := &lthenable{idx: len(g.p.thens)}
	switch W.Draw(10) {
	case 8:
		t.kind = thGetterThrows
		t.id = g.newID('g')
		g.ival++
		t.throwVal = 10 + g.ival
	case 9:
		t.kind = thNonCallable
	default:
		t.id = g.newID('t')
		n := [...]int{1, 0, 2, 2}[W.Draw(4)]
		for i := 0; i < n; i++ {
			c := lthCall{rej: W.Draw(3) == 2, val: g.simpleVal(), later: -1}
			if W.Draw(3) == 2 {
				c.later = W.Draw(4)
			}
			t.calls = append(t.calls, c)
		}
		switch W.Draw(6) {
		case 4:
			t.throwAt = 1
		case 5:
			t.throwAt = 2
		}
		if t.throwAt != 0 {
			g.ival++
			t.throwVal = 10 + g.ival
		}
	}
	g.p.thens = append(g.p.thens, t)
	return t.idx
}

func (g *lgen) genAsync(depth int) int {
	W := g.W
	a := &lasync{idx: len(g.p.asyncs), id: g.newID('a')}
	g.p.asyncs = append(g.p.asyncs, a)
	n := 1 + W.Draw(3)
	for i := 0; i < n; i++ {
		st := lastmt{}
		switch W.Draw(11) {
		case 0, 1, 2:
			st.kind, st.id = asAwait, g.newID('w')
			st.val = g.genVal(true, depth)
		case 3, 4:
			st.kind, st.id, st.idc = asTryAwait, g.newID('w'), g.newID('c')
			st.val = g.genVal(true, depth)
		case 9:
			st.kind, st.val = asReturn, g.intVal()
			if len(g.have) > 0 {
				st.val = lval{lvProm, g.pick()} // returning a promise costs the thenable-job ticks
			}
		case 10:
			st.kind, st.val = asReturn, lval{lvThen, g.genThenable()}
		case 5, 6:
			if g.nested < lsMaxNested {
				g.nested++
				st.kind, st.op = asOp, g.genOp(depth+1, true)
			} else {
				st.kind, st.id = asAwait, g.newID('w')
				st.val = g.intVal()
			}
		case 7:
			st.kind, st.val = asReturn, g.genVal(true, depth)
		case 8:
			st.kind, st.val = asThrow, g.simpleVal()
		}
		a.body = append(a.body, st)
		if st.kind == asReturn || st.kind == asThrow {
			break
		}
	}
	return a.idx
}

// genHandler: selfSlot is the slot of the promise derived by the operation the handler is attached with.
func (g *lgen) genHandler(depth int, sk byte, selfSlot int) *lhandler {
	W := g.W
	h := &lhandler{sk: sk}
	k := W.Draw(12)
	switch {
	case k == 10 && g.hazard:
		h.kind = hNH
		h.id, h.id2 = g.newID('N'), g.newID(sk)
	case k == 11 && g.hazard && g.p.nGo > 0:
		h.kind = hNS
		h.id = g.newID('S')
		h.g, h.rej = W.Draw(g.p.nGo), W.Draw(3) == 2
		h.val = g.simpleVal()
		return h
	default:
		h.id = g.newID(sk)
	}
	if depth <= 1 {
		nb := [...]int{0, 0, 1, 2}[W.Draw(4)]
		for i := 0; i < nb && g.nested < lsMaxNested; i++ {
			g.nested++
			h.body = append(h.body, g.genOp(depth+1, true))
		}
	}
	switch W.Draw(10) {
	case 0, 1, 2:
		h.ret, h.val = retVal, g.intVal()
	case 3:
		h.ret = retNone
	case 4:
		h.ret, h.val = retVal, g.genVal(true, depth)
	case 5:
		h.ret, h.val = retVal, lval{lvThen, g.genThenable()}
	case 6, 7:
		h.ret, h.val = retThrow, g.simpleVal()
	case 8:
		h.ret, h.val = retVal, lval{lvProm, selfSlot} // chaining cycle
	case 9:
		h.ret, h.val = retVal, g.simpleVal()
	}
	return h
}

func (g *lgen) genExec() []lact {
	W := g.W
	n := [...]int{1, 1, 2, 1, 2, 3, 1, 0}[W.Draw(8)]
	var acts []lact
	for i := 0; i < n; i++ {
		a := lact{}
		switch W.Draw(9) {
		case 5:
			a.kind, a.stash = actStash, g.p.nStash
			g.p.nStash++
		case 6:
			a.kind, a.val = actThrow, g.simpleVal()
		case 7, 8:
			a.kind, a.rej, a.ms = actSettleLater, W.Draw(3) == 2, W.Draw(5)
			a.val = g.genVal(false, 9)
		default:
			a.kind, a.rej = actSettle, W.Draw(3) == 2
			a.val = g.genVal(false, 9)
		}
		acts = append(acts, a)
		if a.kind == actThrow {
			break
		}
	}
	return acts
}

// genTail: 0 is "returns normally".
func (g *lgen) genTail() ltail {
	W := g.W
	switch W.Draw(9) {
	case 5, 6:
		return ltail{kind: tailThrow, val: g.simpleVal()}
	case 7:
		return ltail{kind: tailGetter, id: g.newID('x'), val: g.simpleVal()}
	case 8:
		return ltail{kind: tailTypeErr + W.Draw(3)}
	}
	return ltail{}
}

func (g *lgen) genOp(depth int, nestedMenu bool) *lop {
	W := g.W
	total := 0
	for _, w := range lopWeights {
		total += w
	}
	d := W.Draw(total)
	kind := 0
	for acc := 0; kind < nLops; kind++ {
		if acc += lopWeights[kind]; d < acc {
			break
		}
	}
	o := &lop{kind: kind, slot: -1, key: -1}
	g.top = !nestedMenu
	createsBase := kind == opNew || kind == opPResolve || kind == opPReject || kind == opComb || kind == opAsyncCall || kind == opGoAsync
	if len(g.have) == 0 {
		if !createsBase || kind == opComb {
			o.kind = opNew
		}
	} else if createsBase && g.base >= lsMaxBase {
		o.kind = opThen
	}
	if o.kind == opAsyncCall && (len(g.p.asyncs) >= lsMaxAsyncs || depth >= 2) {
		o.kind = opThen
	}
	if o.kind == opGoAsync {
		o.g = -1
		for i, u := range g.goUsed {
			if !u {
				o.g = i
				break
			}
		}
		if o.g < 0 {
			o.kind = opSettleNow
		}
	}
	if o.kind == opSettleNow && g.p.nGo == 0 {
		o.kind = opThen
	}
	if o.kind == opCallStash && g.p.nStash == 0 {
		o.kind = opNew
		if g.base >= lsMaxBase {
			o.kind = opThen
		}
	}
	if o.kind == opClearTimeout && g.p.nTimers == 0 {
		o.kind = opSetTimeout
	}
	if o.kind == opSetTimeout && depth >= 2 {
		o.kind = opLog
	}
	if (o.kind == opThen || o.kind == opCatch || o.kind == opFinally) && len(g.have) == 0 {
		o.kind = opNew
	}
	switch o.kind {
	case opNew:
		o.id = g.newID('e')
		o.slot = g.newSlot(-1)
		o.exec = g.genExec()
		if nestedMenu && len(o.exec) == 0 {
			o.exec = []lact{{kind: actSettle, val: g.intVal()}}
		}
	case opThen:
		o.tgt = g.pick()
		o.slot = g.newSlot(g.p.rootOf[o.tgt])
		switch W.Draw(5) {
		case 0, 1:
			o.h1 = g.genHandler(depth, 'f', o.slot)
		case 2:
			o.h1 = g.genHandler(depth, 'f', o.slot)
			o.h2 = g.genHandler(depth, 'r', o.slot)
		case 3:
			o.h2 = g.genHandler(depth, 'r', o.slot)
		}
	case opCatch:
		o.tgt = g.pick()
		o.slot = g.newSlot(g.p.rootOf[o.tgt])
		o.h1 = g.genHandler(depth, 'r', o.slot)
	case opFinally:
		o.tgt = g.pick()
		o.slot = g.newSlot(g.p.rootOf[o.tgt])
		if W.Draw(8) != 7 {
			o.h1 = g.genHandler(depth, 'y', o.slot)
		}
	case opPResolve, opPReject:
		o.val = g.genVal(false, 9)
		o.slot = g.newSlot(-1)
	case opComb:
		o.comb = W.Draw(4)
		n := [...]int{2, 1, 3, 0}[W.Draw(4)]
		for i := 0; i < n; i++ {
			o.items = append(o.items, g.genVal(false, 9))
		}
		o.slot = g.newSlot(-1)
	case opCallStash:
		o.stash, o.rej = W.Draw(g.p.nStash), W.Draw(3) == 2
		o.val = g.genVal(false, 9)
	case opAsyncCall:
		o.slot = g.newSlot(-1)
		o.fn = g.genAsync(depth + 1)
	case opSetTimeout:
		o.ms = W.Draw(6)
		o.key = g.p.nTimers
		g.p.nTimers++
		n := 1 + W.Draw(2)
		for i := 0; i < n && g.nested < lsMaxNested; i++ {
			g.nested++
			o.body = append(o.body, g.genOp(depth+1, true))
		}
		o.tail = g.genTail()
	case opClearTimeout:
		o.key = W.Draw(g.p.nTimers)
	case opGoAsync:
		g.goUsed[o.g] = true
		o.slot = g.newSlot(-1)
	case opSettleNow:
		o.g, o.rej = W.Draw(g.p.nGo), W.Draw(3) == 2
		o.val = g.simpleVal()
	case opDeep:
	case opLog:
		o.id = g.newID('l')
	}
	return o
}

func genLoopProgram(W *core.Track, hazard bool) *lprog {
	p := &lprog{}
	g := &lgen{W: W, p: p, hazard: hazard}
	ntasks := 1 + W.Draw(3)
	p.nGo = W.Draw(3)
	g.goUsed = make([]bool, p.nGo)
	left := lsMaxTop
	for i := 0; i < ntasks; i++ {
		n := 2 + W.Draw(5)
		if n > left {
			n = left
		}
		left -= n
		var ops []*lop
		for j := 0; j < n; j++ {
			ops = append(ops, g.genOp(0, false))
		}
		p.tasks = append(p.tasks, ops)
		p.tails = append(p.tails, g.genTail())
	}
	for i := 0; i < p.nGo; i++ {
		var pl [2]lgoIntent
		for j := range pl {
			pl[j].rej = W.Draw(4) == 3
			switch W.Draw(6) {
			case 4:
				pl[j].val = lval{lvUndef, 0}
			case 5:
				pl[j].val = lval{lvProm, W.Draw(p.nSlots)}
			default:
				pl[j].val = g.intVal()
			}
		}
		p.goPlan = append(p.goPlan, pl)
	}
	return p
}

// ---- rendering to JavaScript -----------------------------------------------------------------------------------

type lrender struct {
	sb  strings.Builder
	p   *lprog
	ind int
}

func (r *lrender) nl() {
	r.sb.WriteByte('\n')
	for i := 0; i < r.ind; i++ {
		r.sb.WriteString("  ")
	}
}

func (r *lrender) w(f string, a ...interface{}) { fmt.Fprintf(&r.sb, f, a...) }

func b2i(b bool) int {
	if b {
		return 1
	}
	return 0
}

func (r *lrender) val(v lval) string {
	switch v.k {
	case lvInt:
		return strconv.Itoa(v.n)
	case lvProm:
		return fmt.Sprintf("G(%d)", v.n)
	case lvThen:
		return r.thenable(r.p.thens[v.n])
	case lvAsync:
		return fmt.Sprintf("AF%d()", v.n)
	}
	return "undefined"
}

func resName(rej bool) string {
	if rej {
		return "rej"
	}
	return "res"
}

func (r *lrender) thenable(t *lthenable) string {
	var sb strings.Builder
	switch t.kind {
	case thNonCallable:
		fmt.Fprintf(&sb, "{tid: %d, then: 5}", t.idx)
	case thGetterThrows:
		fmt.Fprintf(&sb, "{tid: %d, get then(){ L(%d); B(); throw %d; }}", t.idx, t.id, t.throwVal)
	default:
		fmt.Fprintf(&sb, "{tid: %d, then: function(res, rej){ L(%d); ", t.idx, t.id)
		if t.throwAt == 1 {
			fmt.Fprintf(&sb, "B(); throw %d; }}", t.throwVal)
			return sb.String()
		}
		for _, c := range t.calls {
			if c.later < 0 {
				fmt.Fprintf(&sb, "B(); %s(%s); ", resName(c.rej), r.val(c.val))
			} else {
				fmt.Fprintf(&sb, "setTimeout(function(){ B(); %s(%s); Z(); }, %d, -1); ", resName(c.rej), r.val(c.val), c.later)
			}
		}
		if t.throwAt == 2 {
			fmt.Fprintf(&sb, "B(); throw %d; }}", t.throwVal)
		} else {
			sb.WriteString("B(); }}")
		}
	}
	return sb.String()
}

func (r *lrender) jsFunc(id int, h *lhandler) {
	r.w("function(x){ L(%d, x);", id)
	r.ind++
	r.ops(h.body)
	switch h.ret {
	case retVal:
		r.w(" B(); return %s; }", r.val(h.val))
	case retThrow:
		r.w(" B(); throw %s; }", r.val(h.val))
	default:
		r.w(" B(); }")
	}
	r.ind--
}

func (r *lrender) handler(h *lhandler) {
	if h == nil {
		r.w("undefined")
		return
	}
	switch h.kind {
	case hNH:
		r.w("NH(%d, ", h.id)
		r.jsFunc(h.id2, h)
		r.w(")")
	case hNS:
		r.w("NS(%d, %d, %d, %d, %d)", h.id, h.g, b2i(h.rej), h.val.k, h.val.n)
	default:
		r.jsFunc(h.id, h)
	}
}

func (r *lrender) ops(ops []*lop) {
	for _, o := range ops {
		r.nl()
		r.op(o)
	}
}

func (r *lrender) op(o *lop) {
	switch o.kind {
	case opNew:
		r.w("B(); R(%d, new Promise(function(res, rej){ L(%d);", o.slot, o.id)
		for _, a := range o.exec {
			switch a.kind {
			case actSettle:
				r.w(" B(); %s(%s);", resName(a.rej), r.val(a.val))
			case actStash:
				r.w(" SS(%d, res, rej);", a.stash)
			case actThrow:
				r.w(" B(); throw %s;", r.val(a.val))
			case actSettleLater:
				r.w(" setTimeout(function(){ B(); %s(%s); Z(); }, %d, -1);", resName(a.rej), r.val(a.val), a.ms)
			}
		}
		r.w(" B(); }));")
	case opThen, opCatch, opFinally:
		r.w("{ let t = G(%d); if (t) { B(); R(%d, t.%s(", o.tgt, o.slot, lopNames[o.kind])
		r.handler(o.h1)
		if o.kind == opThen {
			r.w(", ")
			r.handler(o.h2)
		}
		r.w(")); } }")
	case opPResolve:
		r.w("B(); R(%d, Promise.resolve(%s));", o.slot, r.val(o.val))
	case opPReject:
		r.w("B(); R(%d, Promise.reject(%s));", o.slot, r.val(o.val))
	case opComb:
		var it []string
		for _, v := range o.items {
			it = append(it, r.val(v))
		}
		r.w("B(); R(%d, Promise.%s([%s]));", o.slot, combNames[o.comb], strings.Join(it, ", "))
	case opCallStash:
		r.w("{ let f = GS(%d, %d); if (f) { B(); f(%s); } }", o.stash, b2i(o.rej), r.val(o.val))
	case opAsyncCall:
		r.w("B(); R(%d, AF%d());", o.slot, o.fn)
	case opSetTimeout:
		r.w("setTimeout(function(){")
		r.ind++
		r.ops(o.body)
		r.w(" %s }, %d, %d);", r.tail(o.tail), o.ms, o.key)
		r.ind--
	case opClearTimeout:
		r.w("CT(%d);", o.key)
	case opGoAsync:
		r.w("B(); R(%d, goAsync(%d));", o.slot, o.g)
	case opSettleNow:
		r.w("settleNow(%d, %d, %d, %d);", o.g, b2i(o.rej), o.val.k, o.val.n)
	case opDeep:
		r.w("D(); deep(120);")
	case opLog:
		r.w("L(%d);", o.id)
	}
}

// tail renders the end of the synchronous part of a macrotask. Z() is the last host call before control leaves it.
func (r *lrender) tail(t ltail) string {
	switch t.kind {
	case tailThrow:
		return fmt.Sprintf("Z(); throw %s;", r.val(t.val))
	case tailGetter:
		return fmt.Sprintf("({get x(){ L(%d); Z(); throw %s; }}).x;", t.id, r.val(t.val))
	case tailTypeErr:
		return "Z(); null.x;"
	case tailRefErr:
		return "Z(); noSuchFunction();"
	case tailNewErr:
		return "Z(); throw new RangeError(\"boom\");"
	}
	return "Z();"
}

func (r *lrender) async(a *lasync) {
	r.nl()
	r.w("async function AF%d(){ var r; L(%d);", a.idx, a.id)
	r.ind++
	ended := false
	for _, st := range a.body {
		r.nl()
		switch st.kind {
		case asAwait:
			r.w("B(); r = await %s; L(%d, r);", r.val(st.val), st.id)
		case asTryAwait:
			r.w("try { B(); r = await %s; L(%d, r); } catch (e) { L(%d, e); }", r.val(st.val), st.id, st.idc)
		case asOp:
			r.op(st.op)
		case asReturn:
			r.w("B(); return %s;", r.val(st.val))
			ended = true
		case asThrow:
			r.w("B(); throw %s;", r.val(st.val))
			ended = true
		}
	}
	r.ind--
	r.nl()
	if ended {
		r.w("}")
	} else {
		r.w("B(); }")
	}
}

func renderLoopProgram(p *lprog) string {
	r := &lrender{p: p}
	r.w("function deep(n){ return n > 0 ? deep(n - 1) + 1 : 0; }")
	for _, a := range p.asyncs {
		r.async(a)
	}
	for i, ops := range p.tasks {
		r.nl()
		r.w("function T%d(){", i)
		r.ind++
		r.ops(ops)
		r.ind--
		r.nl()
		r.w("%s }", r.tail(p.tails[i]))
	}
	r.sb.WriteByte('\n')
	return r.sb.String()
}
