package engines

import (
	"bytes"
	"fmt"
	"syscall"
	"unsafe"
)

// Guard-paged slabs for bufsim. One slab = one anonymous mapping [1 MiB PROT_NONE | one RW page | 1 MiB PROT_NONE].
// The Go-owned buffer handed to goja lives inside the RW page, right-aligned (its end is the page end, an overrun of
// one byte hits the guard) or left-aligned (an underrun of one byte hits the guard). The rest of the page carries a
// canary pattern. "Revoking" a slab (the host took its memory back after ArrayBuffer.Detach) makes the page PROT_NONE
// too, so that ANY later access through a stale pointer faults. With debug.SetPanicOnFault(true) on the simulation
// goroutine such a fault is a recoverable runtime.Error that carries the fault address.

const (
	slabGuard = 1 << 20
	slabPage  = 4096
)

type slab struct {
	mem     []byte // the whole mapping
	page    []byte // the RW page
	buf     []byte // the buffer handed to goja (len == cap)
	off, n  int    // position of buf in page
	right   bool
	revoked bool
	inUse   bool
}

var slabPool []*slab

func canaryByte(i int) byte { return byte(0xA5 ^ (i * 7)) }

var canaryPage = func() []byte {
	p := make([]byte, slabPage)
	for i := range p {
		p[i] = canaryByte(i)
	}
	return p
}()

func newSlab() (*slab, error) {
	mem, err := syscall.Mmap(-1, 0, 2*slabGuard+slabPage, syscall.PROT_NONE, syscall.MAP_ANON|syscall.MAP_PRIVATE)
	if err != nil {
		return nil, fmt.Errorf("mmap: %w", err)
	}
	s := &slab{mem: mem, page: mem[slabGuard : slabGuard+slabPage : slabGuard+slabPage]}
	if err := syscall.Mprotect(s.page, syscall.PROT_READ|syscall.PROT_WRITE); err != nil {
		syscall.Munmap(mem)
		return nil, fmt.Errorf("mprotect: %w", err)
	}
	return s, nil
}

// acquireSlab returns a slab whose page is RW, canary-filled, with an n-byte zeroed buffer placed as requested.
// A small per-process pool is reused: runs are short and there are millions of them.
func acquireSlab(n int, right bool) *slab {
	var s *slab
	for _, c := range slabPool {
		if !c.inUse {
			s = c
			break
		}
	}
	if s == nil {
		var err error
		if s, err = newSlab(); err != nil {
			panic("bufsim: " + err.Error())
		}
		slabPool = append(slabPool, s)
	}
	s.inUse = true
	if s.revoked {
		if err := syscall.Mprotect(s.page, syscall.PROT_READ|syscall.PROT_WRITE); err != nil {
			panic("bufsim: mprotect: " + err.Error())
		}
		s.revoked = false
	}
	s.n, s.right = n, right
	if right {
		s.off = slabPage - n
	} else {
		s.off = 0
	}
	copy(s.page, canaryPage)
	s.buf = s.page[s.off : s.off+n : s.off+n]
	for i := range s.buf {
		s.buf[i] = 0
	}
	return s
}

// revoke takes the memory back: every later access faults.
func (s *slab) revoke() {
	if s.revoked {
		return
	}
	if err := syscall.Mprotect(s.page, syscall.PROT_NONE); err != nil {
		panic("bufsim: mprotect: " + err.Error())
	}
	s.revoked = true
}

func (s *slab) release() { s.inUse = false }

// canaryOK verifies the bytes of the RW page outside the buffer. It returns the page offset of the first damaged byte.
func (s *slab) canaryOK() (int, bool) {
	if s.revoked {
		return 0, true
	}
	if bytes.Equal(s.page[:s.off], canaryPage[:s.off]) && bytes.Equal(s.page[s.off+s.n:], canaryPage[s.off+s.n:]) {
		return 0, true
	}
	for i := 0; i < s.off; i++ {
		if s.page[i] != canaryByte(i) {
			return i, false
		}
	}
	for i := s.off + s.n; i < slabPage; i++ {
		if s.page[i] != canaryByte(i) {
			return i, false
		}
	}
	return 0, true
}

// classify tells where a fault address lies relative to this slab.
//
//	0: not in this mapping, 1: in a guard region, 2: in the (revoked) page
func (s *slab) classify(addr uintptr) int {
	base := uintptr(unsafe.Pointer(unsafe.SliceData(s.mem)))
	if addr < base || addr >= base+uintptr(len(s.mem)) {
		return 0
	}
	if addr >= base+slabGuard && addr < base+slabGuard+slabPage {
		return 2
	}
	return 1
}

// trimSlabPool unmaps slabs beyond a small pool size (called at the end of each run).
func trimSlabPool() {
	const keep = 8
	if len(slabPool) <= keep {
		return
	}
	kept := slabPool[:0]
	for i, s := range slabPool {
		if i < keep || s.inUse {
			kept = append(kept, s)
			continue
		}
		syscall.Munmap(s.mem)
	}
	slabPool = kept
}
