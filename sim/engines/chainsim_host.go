package engines

import (
	"errors"
	"fmt"
	"math/big"
	"strings"

	"github.com/dop251/goja"
)

// The simulated embedding host of chainsim: every native frame of the chain, the catch/finally recorders C and F, the
// raiser, and the checks a host can make on what it is handed.

var (
	chSentA = errors.New("chain-sentinel-A")
	chSentB = errors.New("chain-sentinel-B")
)

type chCustomErr struct{ code int }

func (e *chCustomErr) Error() string { return fmt.Sprintf("chain custom error %d", e.code) }

type chForeignStruct struct {
	id   int
	note string
}

// chHarnessBug is panicked when the harness itself is wrong (never attributed to goja).
type chHarnessBug struct{ msg string }

type chAbort struct{ why string }

type chRun struct {
	rt      *goja.Runtime
	frames  []chFrame
	n       int
	entry   int
	payload int
	flavour int
	m       *chModel // exact prediction for the run with the uncatchable fault components (interrupts, depth limit) taken out
	exact   bool     // no uncatchable component is armed: the run itself must match m
	segOf   []int
	iv      []chIterVals
	armIntr bool // some component may call rt.Interrupt()
	armOvf  bool // a call-depth limit is set

	logs   [][]string
	ticks  int64
	steps  int64
	maxTik int64

	// fault state
	tickAt       int64 // cpIntrTick: raise at this tick (-1: none)
	fired        bool
	measureDepth bool
	maxDepth     int
	intrVal      *intrPayload
	nativeGotOvf bool
	intrRaised   bool     // rt.Interrupt() was called by a host function (raiser or an iterator's return())
	ovfReturned  bool     // an iterator's return() handed back the (wrapped) StackOverflowError of its nested call
	depthLimit   int      // the call-depth limit in force (math.MaxInt32: none)
	gotUnc       []bool   // gotUnc[k]: native frame k was handed an uncatchable error by its nested call
	enteredFos   []bool   // cnForOfStep frame k started its rt.ForOf
	doneFos      []bool   // ... and rt.ForOf returned
	iterFired    []string // what the host iterators actually did (fault counters)

	// values the host holds
	goErrorCtor *goja.Object
	preExc      *goja.Exception
	preExcPrim  *goja.Exception
	preExcRet   *goja.Exception // the one the iterators' return() methods panic with
	preGo       *goja.Object
	preTypeErr  *goja.Object
	preErr      *goja.Object
	jobGo       *goja.Object
	jobGoErr    error
	preGoErr    error
	customErr   *chCustomErr
	foreignVal  interface{}
	rootPay     *chPay
	mkRoot      func() goja.Value // makes the payload value inside the raiser (Error objects capture their stack when made)
	raisedExc   *goja.Exception   // the *Exception the raiser panicked with / returned (samePtr)

	failRule, failMsg string
}

func (r *chRun) fail(rule, f string, a ...interface{}) {
	if r.failRule == "" {
		r.failRule, r.failMsg = rule, fmt.Sprintf(f, a...)
	}
}

func (r *chRun) ev(seg int, f string, a ...interface{}) {
	r.logs[seg] = append(r.logs[seg], fmt.Sprintf(f, a...))
	r.steps++
}

func (r *chRun) tick() {
	r.ticks++
	if r.tickAt >= 0 && !r.fired && r.ticks-1 == r.tickAt {
		r.fired = true
		r.rt.Interrupt(r.intrVal)
	}
	if r.measureDepth {
		if d := r.rt.VerifState().CallStack; d > r.maxDepth {
			r.maxDepth = d
		}
	}
	if r.ticks > r.maxTik {
		panic(&chAbort{why: "tick budget exceeded"})
	}
}

func chFn(k int) string { return fmt.Sprintf("f%d", k) }

// chClass renders a script value for the event log without running script code and without addresses.
func chClass(v goja.Value) string {
	switch {
	case v == nil:
		return "nil"
	case goja.IsUndefined(v):
		return "undefined"
	case goja.IsNull(v):
		return "null"
	}
	switch x := v.(type) {
	case *goja.Object:
		return "[" + x.ClassName() + "]"
	case *goja.Symbol:
		return "symbol"
	}
	switch {
	case goja.IsBigInt(v):
		return "bigint"
	case goja.IsNumber(v):
		return "number"
	case goja.IsString(v):
		return "string"
	}
	return "boolean"
}

func chIdentical(a, b goja.Value) bool {
	if a == nil || b == nil {
		return a == nil && b == nil
	}
	ao, aok := a.(*goja.Object)
	bo, bok := b.(*goja.Object)
	if aok || bok {
		return aok && bok && ao == bo
	}
	return a.SameAs(b) && a.StrictEquals(b)
}

// match checks a script-visible value against a payload descriptor; "" means it is the predicted value. Descriptors of
// objects made inside goja (GoError wrappers) or by script (wrap errors) are bound to the object at first sighting and
// compared by pointer from then on.
func (r *chRun) match(p *chPay, v goja.Value) (msg string) {
	defer func() {
		if x := recover(); x != nil {
			if hb, ok := x.(*chHarnessBug); ok {
				panic(hb)
			}
			msg = fmt.Sprintf("inspecting the value panicked: %T", x)
		}
	}()
	if p.val != nil {
		if chIdentical(p.val, v) {
			return ""
		}
		return fmt.Sprintf("got %s, which is not the very %s that was raised", chClass(v), chClass(p.val))
	}
	o, ok := v.(*goja.Object)
	if !ok {
		return fmt.Sprintf("got %s, want an object (%s)", chClass(v), p.class)
	}
	switch p.kind {
	case pkKnown:
		panic(&chHarnessBug{"payload value not registered before it is seen"})
	case pkGoError:
		if !r.rt.InstanceOf(o, r.goErrorCtor) {
			return "the value is not an instance of GoError"
		}
		val := o.Get("value")
		if val == nil {
			return "the GoError has no 'value' property"
		}
		e, ok := val.Export().(error)
		if !ok {
			return "the GoError's 'value' does not export to a Go error"
		}
		if p.goErr == nil {
			panic(&chHarnessBug{"Go error of a GoError payload not recorded by the native frame that made it"})
		}
		if e != p.goErr {
			return "the GoError's 'value' is not the Go error the native frame returned"
		}
		if p.mustBe != nil && p.mustBe != v {
			return "the value is not the GoError object the native frame panicked with"
		}
	case pkWrapJS:
		if o.ClassName() != "Error" {
			return "the value is not an Error object"
		}
		if got, want := o.Get("message").String(), fmt.Sprintf("wrap-%d", p.wrapK); got != want {
			return fmt.Sprintf("message is %q, want %q", got, want)
		}
		if m := r.match(p.cause, o.Get("cause")); m != "" {
			return "cause: " + m
		}
	}
	p.val = v
	return ""
}

// chMatchRule: the value is the right kind of object but the Go error behind the GoError is lost or wrong: that is the
// errors.Is/As/Unwrap clause of the property, not the identity clause.
func chMatchRule(rule, msg string) string {
	if strings.Contains(msg, "the GoError's 'value'") || strings.Contains(msg, "the GoError has no 'value'") {
		return "errors-is-as"
	}
	return rule
}

// chSpine lists the *Exceptions found in the Unwrap chain of err (depth first, in order); ok=false if the chain does
// not terminate within a generous bound.
func chSpine(err error) (out []*goja.Exception, ok bool) {
	budget := 256
	var walk func(e error) bool
	walk = func(e error) bool {
		for e != nil {
			if budget--; budget < 0 {
				return false
			}
			if ex, is := e.(*goja.Exception); is {
				out = append(out, ex)
			}
			switch u := e.(type) {
			case interface{ Unwrap() error }:
				e = u.Unwrap()
			case interface{ Unwrap() []error }:
				for _, c := range u.Unwrap() {
					if !walk(c) {
						return false
					}
				}
				return true
			default:
				return true
			}
		}
		return true
	}
	ok = walk(err)
	return
}

// checkErr: err is what a Go caller was handed for a predicted catchable state. bare: the caller is an ExportTo'd
// func with an error result and the payload is a GoError, so (documented) it gets the GoError's Go error, not *Exception.
func (r *chRun) checkErr(where string, err error, p *chPay, bare bool, res func(string)) {
	if err == nil {
		r.fail("host-value-identity", "%s: no error, the model predicts an exception carrying %s", where, p.class)
		return
	}
	spine, ok := chSpine(err)
	if !ok {
		r.fail("errors-is-as", "%s: the errors.Unwrap chain of the error does not terminate", where)
		return
	}
	if bare {
		if p.goErr == nil {
			panic(&chHarnessBug{"bare Go error expected but not recorded"})
		}
		if err != p.goErr {
			if _, isEx := err.(*goja.Exception); isEx {
				r.fail("host-value-identity", "%s: got an *Exception, the ExportTo'd func(...) (T, error) is documented to return the GoError's Go error", where)
			} else {
				r.fail("host-value-identity", "%s: got a %T that is not the Go error inside the GoError", where, err)
			}
			return
		}
	} else {
		ex, isEx := err.(*goja.Exception)
		if !isEx {
			r.fail("host-value-identity", "%s: got %s, want *Exception carrying %s", where, chErrKind(err), p.class)
			return
		}
		if m := r.match(p, ex.Value()); m != "" {
			r.fail(chMatchRule("host-value-identity", m), "%s: Exception.Value(): %s", where, m)
			return
		}
		if len(spine) == 0 || spine[0] != ex {
			panic(&chHarnessBug{"spine walk lost the outermost exception"})
		}
		spine = spine[1:]
		if p.hasGo {
			if u := errors.Unwrap(err); u != p.goErr {
				r.fail("errors-is-as", "%s: errors.Unwrap(Exception) is not the Go error wrapped by the GoError (got %T)", where, u)
				return
			}
		} else if u := errors.Unwrap(err); u != nil {
			r.fail("errors-is-as", "%s: errors.Unwrap(Exception) is %T for a value that is not a GoError", where, u)
			return
		}
	}
	if got := errors.Is(err, chSentA); got != p.isA {
		r.fail("errors-is-as", "%s: errors.Is(err, sentinelA) = %v, want %v", where, got, p.isA)
		return
	}
	if got := errors.Is(err, chSentB); got != p.isB {
		r.fail("errors-is-as", "%s: errors.Is(err, sentinelB) = %v, want %v", where, got, p.isB)
		return
	}
	var ce *chCustomErr
	if got := errors.As(err, &ce); got != p.asCustom || (got && ce != r.customErr) {
		r.fail("errors-is-as", "%s: errors.As(err, &customType) = %v (same pointer %v), want %v", where, got, ce == r.customErr, p.asCustom)
		return
	}
	if p.asCustom && res != nil {
		res("errors.As-custom-type-checked")
	}
	if len(spine) != len(p.spine) {
		r.fail("errors-is-as", "%s: the Unwrap chain contains %d inner *Exception(s), want %d", where, len(spine), len(p.spine))
		return
	}
	for i, ex := range spine {
		if m := r.match(p.spine[i], ex.Value()); m != "" {
			r.fail("errors-is-as", "%s: inner *Exception #%d found by errors.As: %s", where, i+1, m)
			return
		}
	}
	if len(p.spine) > 0 && !bare {
		// the same through the standard library's own walk
		var inner *goja.Exception
		if !errors.As(errors.Unwrap(err), &inner) || r.match(p.spine[0], inner.Value()) != "" {
			r.fail("errors-is-as", "%s: errors.As(errors.Unwrap(err), &exception) does not find the original exception", where)
		}
	}
}

func chErrKind(err error) string {
	var ie *goja.InterruptedError
	var so *goja.StackOverflowError
	switch {
	case err == nil:
		return "no error"
	case errors.As(err, &ie):
		return "InterruptedError"
	case errors.As(err, &so):
		return "StackOverflowError"
	}
	if _, ok := err.(*goja.Exception); ok {
		return "*Exception"
	}
	return fmt.Sprintf("%T", err)
}

// checkUncatchable: err must be the documented uncatchable error for the payload, through any %w wrapping.
func (r *chRun) checkUncatchable(where string, err error) bool {
	var so *goja.StackOverflowError
	if errors.As(err, &so) {
		if !r.armOvf {
			r.fail("uncatchable-error-type", "%s: got *StackOverflowError although no call-depth limit is set", where)
			return false
		}
		return true
	}
	var ie *goja.InterruptedError
	if !errors.As(err, &ie) {
		r.fail("uncatchable-error-type", "%s: got %s, want the documented uncatchable error", where, chErrKind(err))
		return false
	}
	if p, ok := ie.Value().(*intrPayload); !ok || p != r.intrVal || !r.armIntr {
		r.fail("uncatchable-error-type", "%s: InterruptedError.Value() is not the value given to Interrupt()", where)
		return false
	}
	return true
}

func chIsUncatchable(err error) bool {
	var so *goja.StackOverflowError
	var ie *goja.InterruptedError
	return err != nil && (errors.As(err, &so) || errors.As(err, &ie))
}

// recv: native frame k got (v, err) from its call to the next frame.
func (r *chRun) recv(k int, v goja.Value, err error, bare bool) {
	where := fmt.Sprintf("native frame %d (%s)", k, chKindNames[r.frames[k-1].kind])
	if !r.exact && chIsUncatchable(err) {
		// where an interrupt / the depth limit strikes is not predicted: the nested call either reports the uncatchable
		// error or completes exactly as in the run without it
		var so *goja.StackOverflowError
		if r.checkUncatchable(where, err) && errors.As(err, &so) {
			r.nativeGotOvf = true
		}
		r.gotUnc[k] = true
		return
	}
	st := r.m.in[k]
	switch st.kind {
	case csNormal:
		if err != nil {
			r.fail("host-value-identity", "%s: nested call failed with %s, the model predicts normal return of %q", where, chErrKind(err), st.normal)
		} else if v.String() != st.normal {
			r.fail("event-log-mismatch", "%s: nested call returned %q, the model predicts %q", where, v.String(), st.normal)
		}
	case csThrow:
		r.checkErr(where, err, st.p, bare && st.p.hasGo, nil)
	case csForeign:
		r.fail("foreign-panic-swallowed", "%s: the nested call returned (%s) although a non-goja panic was raised below it", where, chErrKind(err))
	}
}

// via runs the nested call of native frame k with the bookkeeping every native frame shares.
func (r *chRun) via(k int, bare bool, call func() (goja.Value, error)) (goja.Value, error) {
	seg := r.segOf[k]
	r.ev(seg, "N%d", k)
	v, err := call()
	if v == nil {
		v = goja.Undefined()
	}
	r.recv(k, v, err, bare)
	if err == nil {
		r.ev(seg, "X%d(%s)", k, v.String())
	}
	return v, err
}

func (r *chRun) next(k int) goja.Value { return r.rt.Get(chFn(k + 1)) }

func (r *chRun) callNext(k int) (goja.Value, error) {
	fn, ok := goja.AssertFunction(r.next(k))
	if !ok {
		panic(&chHarnessBug{"next frame is not a function"})
	}
	return fn(goja.Undefined())
}

type chDyn struct {
	get func() goja.Value
}

func (d *chDyn) Get(key string) goja.Value {
	if key == "x" {
		return d.get()
	}
	return nil
}
func (d *chDyn) Set(string, goja.Value) bool { return false }
func (d *chDyn) Has(key string) bool         { return key == "x" }
func (d *chDyn) Delete(string) bool          { return false }
func (d *chDyn) Keys() []string              { return []string{"x"} }

// registerFrame installs native frame k. The reflect-style natives take an unused parameter so that their Go type differs
// from the func types the ExportTo frames ask for: ExportTo of a wrapped Go func to its own type hands back the Go func
// itself and the call would not go through goja at all.
func (r *chRun) registerFrame(k int) {
	rt := r.rt
	f := r.frames[k-1]
	name := chFn(k)
	// the common shape: call next through a Callable, re-raise what came back by panicking with it
	panicStyle := func() goja.Value {
		v, err := r.via(k, false, func() (goja.Value, error) { return r.callNext(k) })
		if err != nil {
			panic(err)
		}
		return v
	}
	switch f.kind {
	case cnFunc:
		rt.Set(name, func(goja.FunctionCall) goja.Value { return panicStyle() })
	case cnFuncGoError:
		rt.Set(name, func(goja.FunctionCall) goja.Value {
			v, err := r.via(k, false, func() (goja.Value, error) { return r.callNext(k) })
			if err != nil {
				if _, isEx := err.(*goja.Exception); !isEx {
					panic(err) // uncatchable conditions are handed on as they are (wrapping them in a GoError would make them catchable)
				}
				o := rt.NewGoError(err)
				if q := r.m.made[k]; q != nil {
					q.goErr, q.mustBe = err, o
				}
				panic(o)
			}
			return v
		})
	case cnReflect:
		rt.Set(name, func(_ goja.Value) (goja.Value, error) {
			return r.via(k, false, func() (goja.Value, error) { return r.callNext(k) })
		})
	case cnReflectWrap:
		rt.Set(name, func(_ goja.Value) (goja.Value, error) {
			v, err := r.via(k, false, func() (goja.Value, error) { return r.callNext(k) })
			if err != nil {
				werr := fmt.Errorf("ctx%d: %w", k, err)
				if q := r.m.made[k]; q != nil {
					q.goErr = werr
				}
				return nil, werr
			}
			return v, nil
		})
	case cnReflectNoErr:
		rt.Set(name, func(_ goja.Value) goja.Value { return panicStyle() })
	case cnCtor:
		rt.Set(fmt.Sprintf("NC%d", k), func(call goja.ConstructorCall) *goja.Object {
			call.This.Set("v", panicStyle())
			return nil
		})
	case cnExportErr:
		rt.Set(name, func(_ goja.Value) (goja.Value, error) {
			v, err := r.via(k, true, func() (goja.Value, error) {
				var g func() (goja.Value, error)
				if xerr := rt.ExportTo(r.next(k), &g); xerr != nil {
					panic(&chHarnessBug{"ExportTo: " + xerr.Error()})
				}
				return g()
			})
			if err != nil {
				if q := r.m.made[k]; q != nil && r.m.in[k].p != nil {
					// the fresh GoError goja makes around the returned error must hold the Go error the model expects
					// this frame to have been handed (judged by recv), which a native frame below may have made just now
					q.goErr = r.m.in[k].p.goErr
				}
				return nil, err
			}
			return v, nil
		})
	case cnExportPanic:
		rt.Set(name, func(goja.FunctionCall) goja.Value {
			// the gateway panics on exceptions: there is no error to look at on this path
			seg := r.segOf[k]
			r.ev(seg, "N%d", k)
			var g func() goja.Value
			if xerr := rt.ExportTo(r.next(k), &g); xerr != nil {
				panic(&chHarnessBug{"ExportTo: " + xerr.Error()})
			}
			v := g()
			if v == nil {
				v = goja.Undefined()
			}
			r.recv(k, v, nil, false)
			r.ev(seg, "X%d(%s)", k, v.String())
			return v
		})
	case cnTryGet:
		rt.Set(name, func(goja.FunctionCall) goja.Value {
			o := rt.Get(fmt.Sprintf("GO%d", k)).(*goja.Object)
			v, err := r.via(k, false, func() (v goja.Value, err error) {
				if ex := rt.Try(func() { v = o.Get("x") }); ex != nil {
					err = ex
				}
				return
			})
			if err != nil {
				panic(err)
			}
			return v
		})
	case cnForOf:
		rt.Set(name, func(goja.FunctionCall) goja.Value {
			it := rt.Get(fmt.Sprintf("IT%d", k))
			v, err := r.via(k, false, func() (v goja.Value, err error) {
				if ex := rt.Try(func() {
					rt.ForOf(it, func(cur goja.Value) bool { v = cur; return false })
				}); ex != nil {
					err = ex
				}
				return
			})
			if err != nil {
				panic(err)
			}
			return v
		})
	case cnProxyCfg:
		px := rt.NewProxy(rt.NewObject(), &goja.ProxyTrapConfig{
			Get: func(target *goja.Object, property string, receiver goja.Value) goja.Value {
				if property != "x" {
					return goja.Undefined()
				}
				return panicStyle()
			},
		})
		rt.Set(fmt.Sprintf("PX%d", k), px)
	case cnDynamic:
		rt.Set(fmt.Sprintf("DY%d", k), rt.NewDynamicObject(&chDyn{get: panicStyle}))
	case cnSwallow:
		rt.Set(name, func(goja.FunctionCall) goja.Value {
			v, err := r.via(k, false, func() (goja.Value, error) { return r.callNext(k) })
			if err != nil {
				ex, ok := err.(*goja.Exception)
				if !ok {
					panic(err) // uncatchable conditions are never swallowed by this host
				}
				r.ev(r.segOf[k], "S%d(%s)", k, chClass(ex.Value()))
				return rt.ToValue(fmt.Sprintf("host-swallowed-%d", k))
			}
			return v
		})
	case cnCtorReenter:
		rt.Set(name, func(goja.FunctionCall) goja.Value {
			v, err := r.via(k, false, func() (goja.Value, error) {
				ctor, ok := goja.AssertConstructor(rt.Get(fmt.Sprintf("KK%d", k)))
				if !ok {
					panic(&chHarnessBug{"not a constructor"})
				}
				o, err := ctor(nil)
				if err != nil {
					return nil, err
				}
				return o.Get("v"), nil
			})
			if err != nil {
				panic(err)
			}
			return v
		})
	case cnForOfStep:
		seg := r.segOf[k]
		drive := func(it goja.Value) goja.Value {
			r.ev(seg, "N%d", k)
			r.enteredFos[k] = true
			var out goja.Value = goja.Undefined()
			if f.sel&fosInNext != 0 {
				// the iterable's script next() calls the next frame
				rt.ForOf(it, func(cur goja.Value) bool { out = cur; return false })
				r.doneFos[k] = true
				r.ev(seg, "X%d(%s)", k, out.String())
				return out
			}
			rt.ForOf(it, func(goja.Value) bool {
				v, err := r.callNext(k)
				if v == nil {
					v = goja.Undefined()
				}
				r.recv(k, v, err, false)
				if err != nil {
					panic(err)
				}
				r.ev(seg, "X%d(%s)", k, v.String())
				out = v
				return false
			})
			r.doneFos[k] = true
			return out
		}
		if f.sel&fosReflect != 0 {
			rt.Set(fmt.Sprintf("NQ%d", k), func(it goja.Value) (out goja.Value, err error) {
				if ex := rt.Try(func() { out = drive(it) }); ex != nil {
					return nil, ex
				}
				return out, nil
			})
		} else {
			rt.Set(fmt.Sprintf("NQ%d", k), func(call goja.FunctionCall) goja.Value { return drive(call.Argument(0)) })
		}
	case cnRunProgram:
		rt.Set(name, func(goja.FunctionCall) goja.Value {
			v, err := r.via(k, false, func() (goja.Value, error) { return rt.RunScript("nested", chFn(k+1)+"()") })
			if err != nil {
				panic(err)
			}
			return v
		})
	default:
		panic(&chHarnessBug{"not a native frame kind"})
	}
}

// registerRecorders installs C, F and REG.
func (r *chRun) registerRecorders() {
	rt := r.rt
	rt.Set("C", func(call goja.FunctionCall) goja.Value {
		k := int(call.Argument(0).ToInteger())
		e := call.Argument(1)
		seg := r.segOf[k]
		if f := r.frames[k-1]; f.kind == cjJob || f.kind == cjIterBuiltin {
			seg = k
		}
		r.ev(seg, "C%d(%s)", k, chClass(e))
		// what e must be: the very payload the model carries past this frame
		if st := r.m.in[k]; st.kind == csThrow {
			if m := r.match(st.p, e); m != "" {
				r.fail(chMatchRule("catch-identity", m), "catch block of frame %d (%s): %s", k, chKindNames[r.frames[k-1].kind], m)
			}
		}
		// a catch block that runs although nothing catchable arrives shows up as an event-log mismatch / prefix violation
		return goja.Undefined()
	})
	rt.Set("F", func(call goja.FunctionCall) goja.Value {
		k := int(call.Argument(0).ToInteger())
		r.ev(r.segOf[k], "F%d(%d)", k, call.Argument(1).ToInteger())
		return goja.Undefined()
	})
	// B(K, v): the body of frame K's loop (or its destructuring default) got v back from the next frame. It tells a close
	// after normal completion of the body from a close during unwinding in the event log.
	// RL(K): the script return() method of frame K's iterable was called
	rt.Set("RL", func(call goja.FunctionCall) goja.Value {
		k := int(call.Argument(0).ToInteger())
		r.ev(r.segOf[k], "r%d", k)
		return goja.Undefined()
	})
	rt.Set("B", func(call goja.FunctionCall) goja.Value {
		k := int(call.Argument(0).ToInteger())
		r.ev(r.segOf[k], "b%d", k)
		return call.Argument(1)
	})
	rt.Set("REG", func(call goja.FunctionCall) goja.Value {
		r.ev(r.segOf[r.n+1], "R")
		if len(call.Arguments) > 0 && r.rootPay != nil && !chPayloadPreCreated(r.payload) {
			r.rootPay.val = call.Argument(0)
		}
		if chPayloadJS(r.payload) {
			r.fired = true
		}
		return goja.Undefined()
	})
}

// registerNativeRaiser installs the innermost raising frame when it is a native function.
func (r *chRun) registerNativeRaiser() {
	rt := r.rt
	name := chFn(r.n + 1)
	seg := r.segOf[r.n+1]
	ok := func() goja.Value { return rt.ToValue("ok") }
	switch r.flavour {
	case crFunc:
		rt.Set(name, func(goja.FunctionCall) goja.Value {
			r.ev(seg, "R")
			p := r.payload
			switch {
			case chPayloadGoValue(p):
				r.fired = true
				switch p {
				case cpGoException:
					r.raisedExc = r.preExc
					panic(r.preExc)
				case cpGoExceptionPrim:
					r.raisedExc = r.preExcPrim
					panic(r.preExcPrim)
				}
				if r.rootPay.val == nil {
					r.rootPay.val = r.mkRoot()
				}
				panic(r.rootPay.val)
			case chPayloadForeign(p):
				r.fired = true
				switch p {
				case cpForeignNilMap:
					var m map[string]int
					m["x"] = 1
				case cpForeignIndex:
					a := []int{1, 2, 3}
					i := 5 + len(r.frames)*0
					_ = a[i]
				}
				panic(r.foreignVal)
			case p == cpIntrNative:
				r.fired, r.intrRaised = true, true
				rt.Interrupt(r.intrVal)
			}
			return ok()
		})
	case crReflect:
		rt.Set(name, func(_ goja.Value) (goja.Value, error) {
			r.ev(seg, "R")
			if chPayloadGoErr(r.payload) {
				r.fired = true
				if r.payload == cpErrException {
					r.raisedExc = r.preExc
					return nil, r.preExc
				}
				return nil, r.rootPay.goErr
			}
			return ok(), nil
		})
	}
}

// prepareValues creates the values the host holds before the chain runs (a function of the payload kind only).
func (r *chRun) prepareValues() {
	rt := r.rt
	r.goErrorCtor = rt.Get("GoError").(*goja.Object)
	_, err := rt.RunString("throw new RangeError('pre-built exception')")
	r.preExc = err.(*goja.Exception)
	_, err = rt.RunString("throw 'pre-built string'")
	r.preExcPrim = err.(*goja.Exception)
	r.preGoErr = fmt.Errorf("pre: %w", chSentA)
	r.preGo = rt.NewGoError(r.preGoErr)
	// further Error objects made while the VM call stack is empty
	r.preTypeErr = rt.NewTypeError("made by the host while idle")
	rt.Set("PRETE", r.preTypeErr)
	if o, nerr := rt.New(rt.Get("Error"), rt.ToValue("made by the host while idle")); nerr == nil {
		r.preErr = o
	} else {
		panic(&chHarnessBug{"New(Error): " + nerr.Error()})
	}
	rt.Set("PREER", r.preErr)
	// ... and by goja itself for a reflect-wrapped native that fails while it runs as a promise reaction job
	r.jobGoErr = fmt.Errorf("job: %w", chSentA)
	rt.Set("chJobFails", func() error { return r.jobGoErr })
	if _, jerr := rt.RunString("var SAVEDJOBERR; Promise.resolve().then(chJobFails).catch(function(e){ SAVEDJOBERR = e; }); 0"); jerr != nil {
		panic(&chHarnessBug{"job setup: " + jerr.Error()})
	}
	if o, ok := rt.Get("SAVEDJOBERR").(*goja.Object); ok && rt.InstanceOf(o, r.goErrorCtor) {
		r.jobGo = o
	} else {
		panic(&chHarnessBug{"the promise job did not leave a GoError behind"})
	}
	rt.Set("PREGO", r.preGo)
	r.customErr = &chCustomErr{code: 7}
	r.intrVal = &intrPayload{id: 14}
	_, err = rt.RunString("throw new EvalError('pre-built exception for return()')")
	r.preExcRet = err.(*goja.Exception)
	// what the host iterators raise
	r.iv = make([]chIterVals, r.n+1)
	for k := 1; k <= r.n; k++ {
		f := r.frames[k-1]
		if f.kind == cnForOfStep && f.sret == sretThrow {
			r.iv[k].retPay = &chPay{kind: pkKnown, class: "[Object]", val: rt.NewObject()}
			rt.Set(fmt.Sprintf("RV%d", k), r.iv[k].retPay.val)
		}
		if !f.usesHostIter() {
			continue
		}
		v := &r.iv[k]
		v.nextPay = &chPay{kind: pkKnown, class: "[Object]", val: rt.NewObject()}
		switch f.retAct {
		case retValue:
			v.retPay = &chPay{kind: pkKnown, class: "[Object]", val: rt.NewObject()}
		case retException:
			v.retPay = &chPay{kind: pkKnown, class: "[Error]", val: r.preExcRet.Value()}
		case retGoError:
			// documented: a returned error that is not *Exception is wrapped in a GoError
			v.retPay = &chPay{kind: pkGoError, class: "[Error]", hasGo: true, goErr: fmt.Errorf("return() of iterator %d: %w", k, chSentB), isB: true}
		case retForeignString:
			v.foreign = fmt.Sprintf("boom in return() of iterator %d", k)
		case retForeignStruct:
			v.foreign = chForeignStruct{id: k, note: "panic in return()"}
		case retForeignRuntime:
			v.foreignRT = "assignment to entry in nil map"
		}
	}
}

// registerIterator installs HI<k>, the factory of frame k's host-implemented iterator: an object made by Go whose
// [Symbol.iterator], next and return are Go functions. What return() and next() do is the fault schedule's choice.
func (r *chRun) registerIterator(k int) {
	rt := r.rt
	f := r.frames[k-1]
	seg := r.segOf[k]
	iv := &r.iv[k]
	fire := func(what string) { r.iterFired = append(r.iterFired, what) }
	rt.Set(fmt.Sprintf("HI%d", k), func(goja.FunctionCall) goja.Value {
		r.ev(seg, "I%d", k)
		o := rt.NewObject()
		o.SetSymbol(goja.SymIterator, func(c goja.FunctionCall) goja.Value { return c.This })
		calls := 0
		o.Set("next", func(goja.FunctionCall) goja.Value {
			r.ev(seg, "n%d", k)
			calls++
			if f.nextAct == nextThrowFirst && calls == 1 || f.nextAct == nextThrowSecond && calls == 2 {
				fire("iter-next-throw")
				panic(iv.nextPay.val)
			}
			res := rt.NewObject()
			res.Set("value", goja.Undefined())
			res.Set("done", calls > 1)
			return res
		})
		body := func() {
			r.ev(seg, "r%d", k)
			switch f.retAct {
			case retValue:
				fire("iter-return-panic-value")
				panic(iv.retPay.val)
			case retException:
				fire("iter-return-panic-exception")
				panic(r.preExcRet)
			case retForeignString, retForeignStruct:
				fire("iter-return-" + chRetActNames[f.retAct])
				panic(iv.foreign)
			case retForeignRuntime:
				fire("iter-return-" + chRetActNames[f.retAct])
				var m map[string]int
				m["x"] = k
			case retInterrupt:
				fire("iter-return-interrupt")
				r.intrRaised = true
				rt.Interrupt(r.intrVal)
			}
		}
		switch f.retAct {
		case retGoError:
			o.Set("return", func(_ goja.Value) (goja.Value, error) {
				r.ev(seg, "r%d", k)
				fire("iter-return-go-error")
				return nil, iv.retPay.goErr
			})
		case retWrappedOverflow:
			// return() calls back into script while the call-depth limit is (as good as) exhausted and hands the error back
			// the idiomatic way: wrapped with %w. goja re-raises such an error as is, and it must stay uncatchable.
			o.Set("return", func(_ goja.Value) (goja.Value, error) {
				r.ev(seg, "r%d", k)
				nop, ok := goja.AssertFunction(rt.Get("chNop"))
				if !ok {
					panic(&chHarnessBug{"chNop missing"})
				}
				rt.SetMaxCallStackSize(0)
				_, err := nop(goja.Undefined())
				rt.SetMaxCallStackSize(r.depthLimit)
				if err != nil {
					if !r.checkUncatchable(fmt.Sprintf("return() of iterator %d", k), err) {
						return nil, err
					}
					fire("iter-return-wrapped-overflow")
					r.ovfReturned = true
					return nil, fmt.Errorf("return() of iterator %d: %w", k, err)
				}
				return rt.NewObject(), nil
			})
		default:
			o.Set("return", func(goja.FunctionCall) goja.Value {
				body()
				return rt.NewObject()
			})
		}
		return o
	})
}

// rootState: what the raiser produces for the payload kind (the root of the transfer model).
func (r *chRun) rootState() chState {
	rt := r.rt
	known := func(class string, v goja.Value) *chPay { return &chPay{kind: pkKnown, class: class, val: v} }
	p := r.payload
	switch {
	case p == cpNone || chPayloadUncatch(p):
		return chState{kind: csNormal, normal: "ok"}
	case chPayloadJS(p):
		classes := map[int]string{cpJsNumber: "number", cpJsString: "string", cpJsBoolean: "boolean", cpJsNull: "null", cpJsUndefined: "undefined",
			cpJsSymbol: "symbol", cpJsBigInt: "bigint", cpJsObject: "[Object]", cpJsArray: "[Array]", cpJsFunction: "[Function]", cpJsError: "[Error]",
			cpJsTypeError: "[Error]", cpJsCustomError: "[Error]", cpJsFrozen: "[Object]", cpJsProxy: "[Object]", cpJsEarlierGoError: "[Error]",
			cpJsIdleTypeError: "[Error]", cpJsIdleError: "[Error]", cpJsJobGoError: "[Error]"}
		pay := known(classes[p], nil) // bound by REG at the throw site
		st := chState{kind: csThrow, p: pay, strictTop: true, someTop: true}
		// Error objects made while the VM call stack was empty (by the host while idle, by a native running as a promise job)
		// have an empty creation stack: thrown by script, the stack is that of the throw site, as for any other value
		switch p {
		case cpJsEarlierGoError:
			pay.val, pay.hasGo, pay.goErr, pay.isA = r.preGo, true, r.preGoErr, true
		case cpJsIdleTypeError:
			pay.val = r.preTypeErr
		case cpJsIdleError:
			pay.val = r.preErr
		case cpJsJobGoError:
			pay.val, pay.hasGo, pay.goErr, pay.isA = r.jobGo, true, r.jobGoErr, true
		}
		r.rootPay = pay
		return st
	case chPayloadGoValue(p):
		var pay *chPay
		switch p {
		case cpGoNumber:
			pay = known("number", rt.ToValue(3.5))
		case cpGoString:
			pay = known("string", rt.ToValue("go-string-payload"))
		case cpGoBoolean:
			pay = known("boolean", rt.ToValue(true))
		case cpGoNull:
			pay = known("null", goja.Null())
		case cpGoUndefined:
			pay = known("undefined", goja.Undefined())
		case cpGoSymbol:
			pay = known("symbol", goja.NewSymbol("go-symbol"))
		case cpGoBigInt:
			pay = known("bigint", rt.ToValue(new(big.Int).Lsh(big.NewInt(1), 70)))
		case cpGoObject:
			pay = known("[Object]", rt.NewObject())
		case cpGoArray:
			pay = known("[Array]", rt.NewArray(1, 2))
		case cpGoTypeError:
			pay = known("[Error]", nil)
			r.mkRoot = func() goja.Value { return rt.NewTypeError("go-made TypeError") }
		case cpGoGoError:
			pay = known("[Error]", nil)
			r.mkRoot = func() goja.Value { return rt.NewGoError(chSentA) }
			pay.hasGo, pay.goErr, pay.isA = true, chSentA, true
		case cpGoException:
			pay = known("[Error]", r.preExc.Value())
		case cpGoExceptionPrim:
			pay = known("string", r.preExcPrim.Value())
		}
		r.rootPay = pay
		pre := p == cpGoException || p == cpGoExceptionPrim // the earlier exception keeps the stack it was given then
		return chState{kind: csThrow, p: pay, someTop: pre, topIfAny: !pre, samePtr: pre}
	case chPayloadGoErr(p):
		if p == cpErrException {
			pay := known("[Error]", r.preExc.Value())
			r.rootPay = pay
			return chState{kind: csThrow, p: pay, someTop: true, samePtr: true}
		}
		// documented: a returned error that is not *Exception is wrapped in a GoError
		pay := &chPay{kind: pkGoError, class: "[Error]", hasGo: true}
		switch p {
		case cpErrSentinel:
			pay.goErr, pay.isA = chSentA, true
		case cpErrWrapped:
			pay.goErr, pay.isA = fmt.Errorf("x: %w", chSentA), true
		case cpErrJoined:
			pay.goErr, pay.isA, pay.isB = errors.Join(chSentA, chSentB), true, true
		case cpErrCustom:
			pay.goErr, pay.asCustom = fmt.Errorf("op failed: %w", r.customErr), true
		case cpErrWrapsException:
			pay.goErr = fmt.Errorf("w: %w", r.preExc)
			pay.spine = []*chPay{known("[Error]", r.preExc.Value())}
			pay.nwraps = 1
		}
		r.rootPay = pay
		return chState{kind: csThrow, p: pay, topIfAny: true}
	case chPayloadForeign(p):
		switch p {
		case cpForeignString:
			r.foreignVal = "boom string"
		case cpForeignStruct:
			r.foreignVal = chForeignStruct{id: 77, note: "custom struct"}
		case cpForeignError:
			r.foreignVal = errors.New("a plain Go error used as panic value")
		}
		st := chState{kind: csForeign, foreign: r.foreignVal}
		switch p {
		case cpForeignNilMap:
			st.foreignRT = "assignment to entry in nil map"
		case cpForeignIndex:
			st.foreignRT = "index out of range [5] with length 3"
		}
		return st
	}
	panic(&chHarnessBug{"unknown payload"})
}

var chJsThrowExpr = map[int]string{
	cpJsNumber: "42", cpJsString: `"boom"`, cpJsBoolean: "false", cpJsNull: "null", cpJsUndefined: "undefined", cpJsSymbol: `Symbol("s")`,
	cpJsBigInt: "12345678901234567890n", cpJsObject: "{a: 1}", cpJsArray: "[1, 2]", cpJsFunction: "function(){}", cpJsError: `new Error("E")`,
	cpJsTypeError: `new TypeError("T")`, cpJsCustomError: `new MyErr("M")`, cpJsFrozen: "Object.freeze({z: 1})", cpJsProxy: "new Proxy({}, {})",
	cpJsEarlierGoError: "PREGO", cpJsIdleTypeError: "PRETE", cpJsIdleError: "PREER", cpJsJobGoError: "SAVEDJOBERR",
}

// chScript renders the chain as script text, one frame per line. Returns the text and the line of the raiser.
func chScript(frames []chFrame, entry, payload, flavour int) (string, int) {
	var sb strings.Builder
	line := 0
	emit := func(f string, a ...interface{}) {
		fmt.Fprintf(&sb, f, a...)
		sb.WriteByte('\n')
		line++
	}
	n := len(frames)
	emit(`class MyErr extends Error { constructor(m){ super(m); this.name = "MyErr"; } }`)
	emit(`function E0(){ this.v = f1(); } function chNop(){}`)
	emit(`var EO = { get x(){ return f1(); } };`)
	for k := 1; k <= n; k++ {
		f := frames[k-1]
		nx := chFn(k + 1)
		fn := chFn(k)
		switch f.kind {
		case cjPlain:
			emit(`function %s(){ return %s(); }`, fn, nx)
		case cjRethrow:
			emit(`function %s(){ try { return %s(); } catch (e) { C(%d, e); throw e; } }`, fn, nx, k)
		case cjFinally:
			emit(`function %s(){ var ok = 0; try { var r = %s(); ok = 1; return r; } finally { F(%d, ok); } }`, fn, nx, k)
		case cjBoth:
			emit(`function %s(){ var ok = 0; try { var r = %s(); ok = 1; return r; } catch (e) { C(%d, e); throw e; } finally { F(%d, ok); } }`, fn, nx, k, k)
		case cjSwallow:
			emit(`function %s(){ try { return %s(); } catch (e) { C(%d, e); return "swallowed-%d"; } }`, fn, nx, k, k)
		case cjWrap:
			emit(`function %s(){ try { return %s(); } catch (e) { C(%d, e); throw new Error("wrap-%d", {cause: e}); } }`, fn, nx, k, k)
		case cjGetter:
			emit(`var og%d = { get x(){ return %s(); } }; function %s(){ return og%d.x; }`, k, nx, fn, k)
		case cjProxy:
			emit(`var pj%d = new Proxy({}, { get: function(t, p, r){ return %s(); } }); function %s(){ return pj%d.x; }`, k, nx, fn, k)
		case cjGen:
			switch f.sel % nGenSel {
			case genForOf:
				emit(`function* gn%d(){ yield %s(); } function %s(){ for (var v of gn%d()) { return v; } }`, k, nx, fn, k)
			case genNext:
				emit(`function* gn%d(){ yield %s(); } function %s(){ return gn%d().next().value; }`, k, nx, fn, k)
			case genDestructure:
				emit(`function* gn%d(){ yield %s(); } function %s(){ var [v] = gn%d(); return v; }`, k, nx, fn, k)
			default:
				emit(`function* gn%d(){ yield %s(); } function %s(){ return [...gn%d()][0]; }`, k, nx, fn, k)
			}
		case cjJob:
			switch f.sel % nJobSel {
			case jobThenFunc:
				emit(`function %s(){ Promise.resolve().then(function(){ return %s(); }).catch(function(e){ C(%d, e); }); return "job-%d"; }`, fn, nx, k, k)
			case jobThenDirect:
				emit(`function %s(){ Promise.resolve().then(%s).catch(function(e){ C(%d, e); }); return "job-%d"; }`, fn, nx, k, k)
			case jobExecutor:
				emit(`function %s(){ new Promise(function(res, rej){ res(%s()); }).catch(function(e){ C(%d, e); }); return "job-%d"; }`, fn, nx, k, k)
			case jobAsyncSync:
				emit(`async function as%d(){ return %s(); } function %s(){ as%d().catch(function(e){ C(%d, e); }); return "job-%d"; }`, k, nx, fn, k, k, k)
			case jobAsyncAwait:
				emit(`async function as%d(){ await null; return %s(); } function %s(){ as%d().catch(function(e){ C(%d, e); }); return "job-%d"; }`, k, nx, fn, k, k, k)
			}
		case cjEval:
			emit(`function %s(){ return eval("%s()"); }`, fn, nx)
		case cjClass:
			emit(`function %s(){ return new (class { constructor(){ this.v = %s(); } })().v; }`, fn, nx)
		case cjIterBuiltin:
			switch f.sel % nBuiltinSel {
			case biArrayFrom:
				emit(`function %s(){ return Array.from(HI%d(), function(v){ return B(%d, %s()); })[0]; }`, fn, k, k, nx)
			case biSetAdd:
				emit(`function %s(){ var r; new (class extends Set { add(v){ r = B(%d, %s()); } })(HI%d()); return r; }`, fn, k, nx, k)
			case biArrayFromGen:
				emit(`function %s(){ var ok = 0; function* g(){ try { yield 1; } finally { F(%d, ok); } } return Array.from(g(), function(v){ var r = B(%d, %s()); ok = 1; return r; })[0]; }`, fn, k, k, nx)
			default:
				emit(`class PK%d extends Promise { static resolve(v){ B(%d, %s()); return super.resolve(v); } } function %s(){ Promise.all.call(PK%d, HI%d()).catch(function(e){ C(%d, e); }); return "job-%d"; }`, k, k, nx, fn, k, k, k, k)
			}
		case cjHostIter:
			switch f.sel % nIterSel {
			case iterForOfReturn:
				emit(`function %s(){ for (var x of HI%d()) { return B(%d, %s()); } }`, fn, k, k, nx)
			case iterForOfBreak:
				emit(`function %s(){ var r; for (var x of HI%d()) { r = B(%d, %s()); break; } return r; }`, fn, k, k, nx)
			case iterForOfExhaust:
				emit(`function %s(){ var r; for (var x of HI%d()) { r = B(%d, %s()); } return r; }`, fn, k, k, nx)
			default:
				emit(`function %s(){ var [x = B(%d, %s())] = HI%d(); return x; }`, fn, k, nx, k)
			}
		case cnCtor:
			emit(`function %s(){ return new NC%d().v; }`, fn, k)
		case cnProxyCfg:
			emit(`function %s(){ return PX%d.x; }`, fn, k)
		case cnDynamic:
			emit(`function %s(){ return DY%d.x; }`, fn, k)
		case cnTryGet:
			emit(`var GO%d = { get x(){ return %s(); } };`, k, nx)
		case cnForOf:
			emit(`var IT%d = { [Symbol.iterator]: function(){ return { next: function(){ return {value: %s(), done: false}; } }; } };`, k, nx)
		case cnCtorReenter:
			emit(`function KK%d(){ this.v = %s(); }`, k, nx)
		case cnForOfStep:
			next := `function(){ return {value: 1, done: false}; }`
			if f.sel&fosInNext != 0 {
				next = fmt.Sprintf(`function(){ return {value: B(%d, %s()), done: false}; }`, k, nx)
			}
			ret := ""
			switch f.sret {
			case sretObject:
				ret = fmt.Sprintf(`, return: function(){ RL(%d); return {}; }`, k)
			case sretThrow:
				ret = fmt.Sprintf(`, return: function(){ RL(%d); throw RV%d; }`, k, k)
			}
			emit(`function SI%d(){ return { [Symbol.iterator]: function(){ return this; }, next: %s%s }; } function %s(){ return NQ%d(SI%d()); }`, k, next, ret, fn, k, k)
		default:
			emit(`// %s is a host function (%s)`, fn, chKindNames[f.kind])
		}
	}
	raiserLine := 0
	if flavour == crJS {
		raiserLine = line + 1
		if chPayloadJS(payload) {
			emit(`function %s(){ var p = %s; REG(p); throw p; }`, chFn(n+1), chJsThrowExpr[payload])
		} else {
			emit(`function %s(){ REG(); return "ok"; }`, chFn(n+1))
		}
	} else {
		emit(`// %s (the raiser) is a host function`, chFn(n+1))
	}
	return sb.String(), raiserLine
}
