package engines

import (
	"fmt"
	"os"
	"runtime"
	"strings"
	"sync"

	"github.com/dop251/goja"

	"verif/sim/core"
)

// racesim (E4): several real goroutines, each owning its own Runtime, run ONE shared compiled Program and use shared
// primitive Values. Exactly one goroutine runs at any moment; which one, and for how many VM instructions, is decided
// by the tape. The hand-off uses raw pipe syscalls (baton.go) so that the race detector sees no happens-before edge
// from the scheduler: a race is reported iff goja's own synchronisation does not order two conflicting accesses.
// Oracles: (1) no race report / Go fatal error (the worker process dies with the report; the parent attributes it to the
// announced run), (2) every task's output equals the output of the same script run alone on a fresh runtime with a
// separately compiled program and separately constructed values, (3) Objects of a foreign runtime are rejected.

type raceTask struct {
	id      int
	bt      *baton
	rt      *goja.Runtime
	out     []string // results of the runs of this task (goroutine-local until the final WaitGroup)
	errs    []string
	foreign []string
	done    bool
	slice   int    // remaining ticks before the next scheduling point
	gid     uint64 // id of the task's goroutine (sync-point hooks may also be called by goroutines that are not tasks)
	held    int    // locks of the instrumented goja tree currently held by the task
}

type raceSched struct {
	tasks    []*raceTask
	cur      int
	dec      []uint16 // pre-drawn decisions (written before the goroutines start, read-only afterwards)
	pos      int
	main     *baton
	switches int
	trace    []uint16 // (task, ticks) pairs actually realised
	ticks    int64
	syncPts  int64 // lock acquisitions of goja code reached by tasks (instrumented build only)
	syncSw   int64 // ... at which the schedule switched to another goroutine
	spins    int64 // runtime.Gosched() calls of goja code reached by tasks
}

var raceCur *raceSched // the scheduler of the run in progress (one run at a time per process)

//go:norace
func (t *raceTask) setGID(id uint64) { t.gid = id }

//go:norace
func (s *raceSched) nextDec() int {
	d := s.dec[s.pos%len(s.dec)]
	s.pos++
	return int(d)
}

// yield is called by the running task at a scheduling point. It picks the next runnable task and passes the baton.
//
//go:norace
func (s *raceSched) yield(self *raceTask, finished bool) {
	if finished {
		self.done = true
	}
	// candidates
	n := 0
	for _, t := range s.tasks {
		if !t.done {
			n++
		}
	}
	if n == 0 {
		s.main.signal()
		return
	}
	k := s.nextDec() % n
	var next *raceTask
	for _, t := range s.tasks {
		if !t.done {
			if k == 0 {
				next = t
				break
			}
			k--
		}
	}
	next.slice = 1 + s.nextDec()%24
	if s.nextDec()%6 == 0 {
		next.slice = 1 + s.nextDec()%400
	}
	if len(s.trace) < 4096 {
		s.trace = append(s.trace, uint16(next.id), uint16(next.slice))
	}
	if next == self {
		return
	}
	s.switches++
	s.cur = next.id
	next.bt.signal()
	if !finished {
		self.bt.wait()
	}
}

// yieldToOther passes the baton to a task other than self (tape-chosen) if there is one that has not finished.
//
//go:norace
func (s *raceSched) yieldToOther(self *raceTask) {
	var others []*raceTask
	for _, t := range s.tasks {
		if !t.done && t != self {
			others = append(others, t)
		}
	}
	if len(others) == 0 {
		return
	}
	next := others[s.nextDec()%len(others)]
	next.slice = 1 + s.nextDec()%24
	if len(s.trace) < 4096 {
		s.trace = append(s.trace, uint16(next.id), uint16(next.slice))
	}
	s.switches++
	s.cur = next.id
	next.bt.signal()
	self.bt.wait()
}

//go:norace
func raceTick(r *goja.Runtime) {
	s := raceCur
	if s == nil {
		return
	}
	t := s.tasks[s.cur]
	if t.rt != r {
		return // a runtime that is not a task's (reference runs)
	}
	s.ticks++
	t.slice--
	if t.slice <= 0 {
		s.yield(t, false)
	}
}

// raceSyncHook is installed as verifyield.Hook in the instrumented build (tag verifyield, see cmd/lockyield): every lock
// acquisition in goja code is a scheduling point of its own, so that the tape can also interleave goroutines between two
// critical sections of one operation. A task that holds a lock is never descheduled there (the task that would run next
// might block on that lock for real, which the scheduler could not see).
//
//go:norace
func raceSyncHook(kind int) {
	s := raceCur
	if s == nil {
		return
	}
	t := s.tasks[s.cur]
	if t.gid == 0 || t.gid != curGoroutineID() {
		return // e.g. a cleanup goroutine of the Go runtime
	}
	switch kind {
	case 1:
		t.held++
	case 2:
		if t.held > 0 {
			t.held--
		}
	case 0:
		s.syncPts++
		if t.held == 0 && s.nextDec()%2 == 0 {
			before := s.switches
			s.yield(t, false)
			if s.switches != before {
				s.syncSw++
			}
		}
	case 4:
		// an atomic load (the VM's own poll of its interrupt flag is one, once per instruction): a rare scheduling
		// point, so that two loads of one operation can be separated by another goroutine's stores
		if noLoadYield {
			return
		}
		if t.held == 0 && s.nextDec()%64 == 0 {
			s.yield(t, false)
		}
	case 3:
		// runtime.Gosched(): the task waits for another goroutine to make progress; in a serialised execution it has to
		// give up the baton or it would spin for ever
		s.spins++
		if s.spins > 200000 {
			panic("racesim: a task keeps calling runtime.Gosched() and no other task makes the awaited progress")
		}
		s.yieldToOther(t)
	}
}

// noLoadYield (VERIF_NO_LOAD_YIELD=1) switches the atomic-load scheduling points off (sensitivity experiments only).
var noLoadYield = os.Getenv("VERIF_NO_LOAD_YIELD") == "1"

// syncPointsBuilt is set by the instrumented build.
var syncPointsBuilt bool

func curGoroutineID() uint64 {
	var buf [40]byte
	n := runtime.Stack(buf[:], false)
	// "goroutine 123 [running]:..."
	var id uint64
	for _, c := range buf[len("goroutine "):n] {
		if c < '0' || c > '9' {
			break
		}
		id = id*10 + uint64(c-'0')
	}
	return id
}

// ---- workload ----------------------------------------------------------------------------------------------------

type sharedSpec struct {
	kind string
	str  string
	num  float64
}

func genSharedSpecs(W *core.Track) []sharedSpec {
	long := []string{
		"plain ascii string longer than sixteen bytes",
		"non-ascii: \u00e9\u00e8\u00ea longer than sixteen bytes \u4e16\u754c",
		"astral \U0001F600 and more text to be long enough",
		"0123456789012345678901234567890123456789",
		"   12345678901234567890   ",
		"short",
		"sh\u00f6rt",
	}
	n := 2 + W.Draw(5)
	var specs []sharedSpec
	for i := 0; i < n; i++ {
		switch W.Draw(10) {
		case 8:
			specs = append(specs, sharedSpec{kind: "uconcat", str: long[1+W.Draw(2)]})
		case 9:
			specs = append(specs, sharedSpec{kind: "builder", str: long[1+W.Draw(2)]})
		case 0, 1, 2:
			specs = append(specs, sharedSpec{kind: "gostr", str: long[W.Draw(len(long))]})
		case 3:
			specs = append(specs, sharedSpec{kind: "concat", str: long[W.Draw(len(long))]})
		case 4:
			specs = append(specs, sharedSpec{kind: "utf16", str: long[1+W.Draw(2)]})
		case 5:
			specs = append(specs, sharedSpec{kind: "symbol", str: fmt.Sprintf("sym%d", i)})
		case 6:
			specs = append(specs, sharedSpec{kind: "bigint", str: "123456789012345678901234567890"})
		default:
			specs = append(specs, sharedSpec{kind: "number", num: []float64{1.5, 9007199254740993, -0.0, 42}[W.Draw(4)]})
		}
	}
	return specs
}

func utf16Of(s string) []uint16 {
	var u []uint16
	for _, r := range s {
		if r > 0xffff {
			r -= 0x10000
			u = append(u, uint16(0xd800+(r>>10)), uint16(0xdc00+(r&0x3ff)))
		} else {
			u = append(u, uint16(r))
		}
	}
	return u
}

// buildShared constructs the values with the help of one runtime (or package-level constructors).
func buildShared(rt *goja.Runtime, specs []sharedSpec) []goja.Value {
	var vals []goja.Value
	for _, sp := range specs {
		switch sp.kind {
		case "gostr":
			vals = append(vals, rt.ToValue(sp.str)) // > 16 bytes: lazily scanned imported string
		case "concat":
			a := rt.ToValue(sp.str)
			b := rt.ToValue(sp.str + " tail that is also long")
			rt.Set("__a", a)
			rt.Set("__b", b)
			v, err := rt.RunString("__a + __b")
			if err != nil {
				panic(err)
			}
			vals = append(vals, v)
		case "uconcat", "builder":
			// a UTF-16 string produced by concatenation / by a builder: its backing array may have spare capacity, so a
			// careless in-place append by one runtime would be visible to the others
			rt.Set("__a", goja.StringFromUTF16(utf16Of(sp.str)))
			rt.Set("__b", goja.StringFromUTF16(utf16Of("\u00fc\u00f6 tail")))
			src := "__a + __b"
			if sp.kind == "builder" {
				src = "[__a, __b, __a].join('\u00e9') + __b.repeat(2)"
			}
			v, err := rt.RunString(src)
			if err != nil {
				panic(err)
			}
			vals = append(vals, v)
		case "utf16":
			var u []uint16
			for _, r := range sp.str {
				if r > 0xffff {
					r -= 0x10000
					u = append(u, uint16(0xd800+(r>>10)), uint16(0xdc00+(r&0x3ff)))
				} else {
					u = append(u, uint16(r))
				}
			}
			vals = append(vals, goja.StringFromUTF16(u))
		case "symbol":
			vals = append(vals, goja.NewSymbol(sp.str))
		case "bigint":
			v, err := rt.RunString(sp.str + "n * 3n")
			if err != nil {
				panic(err)
			}
			vals = append(vals, v)
		case "number":
			vals = append(vals, rt.ToValue(sp.num))
		}
	}
	return vals
}

const nRaceStmt = 25

func genRaceProgram(W *core.Track, nshared int) string {
	var sb strings.Builder
	sb.WriteString("var out = [];\n")
	n := 3 + W.Draw(8)
	for i := 0; i < n; i++ {
		a, b := W.Draw(nshared), W.Draw(nshared)
		switch W.Draw(nRaceStmt) {
		case 0:
			fmt.Fprintf(&sb, "{ var re%d = /a(b+)/g; out.push(re%d.exec('xabbyab')[1], re%d.lastIndex, String(re%d.exec('xabbyab')), re%d.lastIndex, String(re%d.exec('xabbyab'))); }\n", i, i, i, i, i, i)
		case 1:
			fmt.Fprintf(&sb, "out.push('aXbxc'.replace(/x/gi, '-'), 'a1b22c'.split(/\\d+/).length, /^[\\w.]+@\\w+$/.test('a.b@c'), /(\\d+)-(?<n>\\d+)/.exec('12-34').groups.n);\n")
		case 2:
			fmt.Fprintf(&sb, "{ var st%d = /o/y; st%d.lastIndex = 1; out.push(st%d.test('foo'), st%d.lastIndex, st%d.test('foo'), st%d.lastIndex, st%d.test('foo')); }\n", i, i, i, i, i, i, i)
		case 3:
			fmt.Fprintf(&sb, "out.push(String(/(a)\\1(?=b)/.exec('xaab')), 'aaa'.replace(/(?<!a)a/g, 'b'), /\\u{1F600}/u.test('\\u{1F600}'));\n")
		case 4:
			fmt.Fprintf(&sb, "{ function tag%d(s, v){ var same = tag%d.last === s; tag%d.last = s; return s.raw.join('+') + v + same + Object.isFrozen(s); } for (var t%d = 0; t%d < 2; t%d++) out.push(tag%d`a${t%d}b\\n`); }\n", i, i, i, i, i, i, i, i)
		case 5:
			fmt.Fprintf(&sb, "{ class K%d { #p = 1; static #c = 0; static { K%d.#c = 5; } #m(){ return this.#p + K%d.#c; } get v(){ return this.#m(); } static has(o){ return #p in o; } } out.push(new K%d().v, K%d.has(new K%d()), K%d.has({})); }\n", i, i, i, i, i, i, i)
		case 6:
			again := []string{"", fmt.Sprintf(", dyn%d(2)", i)}[W.Draw(2)]
			switch W.Draw(3) {
			case 0:
				fmt.Fprintf(&sb, "{ function dyn%d(a){ eval('var q%d = a + 1'); arguments[0] = 9; with ({w: 2}) { return q%d + a + w; } } out.push(dyn%d(1)%s); }\n", i, i, i, i, again)
			case 1:
				// non-simple parameter list: the body has a var scope of its own, which the sloppy direct eval extends (the
				// compiled scope description it starts from belongs to the Program and is shared by every activation)
				fmt.Fprintf(&sb, "{ function dyn%d(a = 1, ...rest){ var own = 2; eval('var q%d = a + own; function h%d(){ return q%d; }'); return typeof q%d + ':' + q%d + ':' + h%d() + ':' + rest.length + typeof nosuch%d; } out.push(dyn%d(1)%s); }\n", i, i, i, i, i, i, i, i, i, again)
			default:
				fmt.Fprintf(&sb, "{ function dyn%d({a, b = 3}, [c] = [4]){ let own = a + b; { eval('var q%d = own + c'); } return (function(){ return eval('q%d + own'); })(); } out.push(dyn%d({a: 1})%s); }\n", i, i, i, i, strings.Replace(again, "(2)", "({a: 2, b: 0}, [1])", 1))
			}
		case 7:
			fmt.Fprintf(&sb, "out.push(1 + 2 * 3, 'a' + 'b' + 1, typeof 1, -(-0) === 0, 2 ** 10, 7 %% 3, 1 / 3 > 0.33, [1, 2, 3].map(function(x){ return x * 2; }).join());\n")
		case 8:
			fmt.Fprintf(&sb, "{ function* g%d(n){ try { for (var i = 0; i < n; i++) yield i * 2; } finally { out.push('fin'); } } out.push([...g%d(3)].join(), Array.from(g%d(2)).length); for (var x%d of g%d(5)) { if (x%d > 2) break; } }\n", i, i, i, i, i, i)
		case 9:
			fmt.Fprintf(&sb, "try { null.x; } catch (e%d) { out.push(e%d.stack.split('\\n').slice(0, 2).join('/'), e%d instanceof TypeError); }\n", i, i, i)
		case 10:
			fmt.Fprintf(&sb, "out.push(new Error('x%d').stack.split('\\n').length > 0, (function deep(n){ return n ? deep(n - 1) : new Error('d').stack.split('\\n').length; })(5));\n", i)
		case 11: // string operations on shared values
			fmt.Fprintf(&sb, "{ var s = SH[%d], t = SH[%d]; if (typeof s === 'string') out.push(s.length, s.charCodeAt(1), s.indexOf('\\u00e9'), s.toUpperCase().length, (s + 'x').length, s.slice(1, 5), s === t, s < t, JSON.stringify(s).length, s.codePointAt(7), s.normalize('NFD').length, s.trim().length, Number(s), parseInt(s), s.localeCompare(t)); }\n", a, b)
		case 12:
			fmt.Fprintf(&sb, "{ var s = SH[%d], t = SH[%d]; var m = new Map([[s, 1]]); var o = {}; if (typeof s !== 'symbol') { o[s] = 2; } out.push(m.has(t), m.has(s), typeof s !== 'symbol' ? o[String(s)] : 0, new Set([s, t, s]).size, [s].includes(t), Object.is(s, t)); }\n", a, b)
		case 13:
			fmt.Fprintf(&sb, "{ var y = SH[%d]; if (typeof y === 'symbol') { var oo = {}; oo[y] = 1; out.push(Object.getOwnPropertySymbols(oo)[0] === y, y.toString(), y.description, oo[y]); } else if (typeof y === 'bigint') { out.push(String(y * 2n), y > 5n, BigInt.asUintN(64, y).toString(16)); } else if (typeof y === 'number') { out.push(y + 1, Object.is(y, -0), String(y), y.toString(2).length); } }\n", a)
		case 14:
			fmt.Fprintf(&sb, "{ var s = SH[%d]; if (typeof s === 'string') out.push(s.replace(/[a-z]+/g, function(m){ return m.length; }).length, s.split(' ').length, s.match(/\\w+/g) ? s.match(/\\w+/g).length : 0, [...s].length, s.at(-1), encodeURIComponent(s.slice(0, 12)).length, s.padEnd(50, '*').length, s.lastIndexOf('e'), s.substring(3).startsWith(s.substring(3, 6))); }\n", a)
		case 15:
			fmt.Fprintf(&sb, "{ var s = SH[%d], t = SH[%d]; if (typeof s === 'string' && typeof t === 'string') { var c = s + t; out.push(c.length, c.charCodeAt(s.length), (c + c).length, c.slice(s.length - 2, s.length + 2), c === s + t, `${s}|${t}`.length, [s, t].join('').length === c.length, s.concat(t, s).length); } }\n", a, b)
		case 16:
			fmt.Fprintf(&sb, "out.push(JSON.stringify({ a: [1, { b: 'x\\u00e9' }], c: null }), JSON.parse('{\"k\":[1,2,{\"z\":\"\\\\u00e9\"}]}').k[2].z, new Date(0).toISOString(), (12345.678).toFixed(2), (255).toString(16), parseFloat('1e3'));\n")
		case 19: // concatenations onto a shared (possibly spare-capacity) UTF-16 base, with a suffix that differs per goroutine
			fmt.Fprintf(&sb, "{ var s = SH[%d]; if (typeof s === 'string') { var c1 = s + '\u03b1' + TID, c2 = s + '\u03b2\u03b3' + TID; var c3 = ('\u00e9\u00e8' + '\u00fc\u00f6') + '\u03b1' + TID; out.push(c1.length - String(TID).length, c1.charCodeAt(s.length), c2.charCodeAt(s.length), c1.slice(s.length, s.length + 1) + c2.slice(s.length, s.length + 2), c3.slice(0, 5), c1 === s + '\u03b1' + TID); } }\n", a)
		case 17: // publish a value created by THIS runtime during the run through the mutex-guarded mailbox
			fmt.Fprintf(&sb, "{ var s = SH[%d], t = SH[%d]; MB_PUT(typeof s === 'string' && typeof t === 'string' ? [s + t, (s + '|' + t).slice(2), `${t}${s}`, s.toUpperCase(), JSON.stringify([s, t]), s.repeat(2)][%d] : Symbol('mb%d')); }\n", a, b, W.Draw(6), i)
		case 21, 22: // every Runtime owns its built-ins: deleting, adding and redefining their properties stays inside it
			tgt := []string{"Math", "JSON", "Reflect", "Promise", "Map.prototype", "Set.prototype", "WeakMap.prototype", "ArrayBuffer.prototype", "DataView.prototype", "Date", "Number", "Array", "Object", "BigInt", "Uint8Array.prototype.__proto__", "Math"}[W.Draw(16)]
			fmt.Fprintf(&sb, "{ var B = %s, ks = Object.getOwnPropertyNames(B), k0 = ks[%d %% ks.length], k1 = ks[%d %% ks.length]; var had = delete B[k0]; try { B.mine%d = TID; } catch (e) {} try { Object.defineProperty(B, k1, { value: %d, configurable: true, writable: true }); } catch (e) {} var after = Object.getOwnPropertyNames(B); out.push(ks.length, had, after.length, after.indexOf(k0), after.indexOf(''), after.indexOf('mine%d') >= 0, Reflect.ownKeys(B).length, typeof B[k1]); }\n", tgt, W.Draw(64), W.Draw(64), i, i, i)
		case 23: // BigInt primitives (literals of the shared Program, shared values) are immutable: storing one that does not fit into 64 bits reduces a copy
			fmt.Fprintf(&sb, "{ var bl = 18446744073709551621n, bn = -1180591620717411303427n, y = SH[%d]; var ba = new BigInt64Array(2), bu = new BigUint64Array(2), dv = new DataView(new ArrayBuffer(16)); ba[0] = bl; bu[0] = bn; dv.setBigInt64(0, bl); dv.setBigUint64(8, bn); if (typeof y === 'bigint') { ba[1] = y; bu[1] = y; dv.setBigUint64(0, y); } out.push(String(bl), String(bn), String(ba[0]), String(bu[0]), String(dv.getBigInt64(8)), typeof y === 'bigint' ? String(y) + '/' + ba[1] + '/' + bu[1] : 0, BigInt.asIntN(64, bl) === ba[0]); }\n", a)
		case 24: // number formatting with many digits (big-integer arithmetic and package-level power tables in ftoa)
			fmt.Fprintf(&sb, "out.push((1.2345e-7).toFixed(100).length, (1e-300).toFixed(100).slice(-6), (1.2345678901234567e+100).toPrecision(21), (9.87e-200).toExponential(30), (5e-324).toFixed(100).length, (1.7976931348623157e308).toPrecision(100).slice(0, 12), (%d.5e-90).toExponential(40).slice(-8), (1e21).toString(7).length, (0.1).toString(3).slice(0, 12));\n", i)
		case 18: // use whatever another runtime has published so far (schedule-dependent: executed, not recorded)
			fmt.Fprintf(&sb, "try { var mv = MB_GET(%d); if (typeof mv === 'string') { mv.length; mv.charCodeAt(3); (mv + 'x').length; mv.toUpperCase(); mv === SH[%d]; mv < SH[%d]; new Map([[mv, 1]]).has(mv); mv.indexOf('\\u00e9'); mv.normalize('NFC'); [...mv].length; } else if (typeof mv === 'symbol') { var mo = {}; mo[mv] = 1; String(mv.description); } } catch (emb) { }\n", W.Draw(8), a, b)
		default:
			fmt.Fprintf(&sb, "{ var f%d = (function(){ var c = 0; return function(){ return ++c; }; })(); f%d(); out.push(f%d(), [3, 1, 2].sort().join(), Object.keys({ b: 1, a: 2, 1: 3 }).join(), Math.max(1, 2), String(Symbol.iterator)); }\n", i, i, i)
		}
	}
	sb.WriteString("out.map(String).join('|')\n")
	return sb.String()
}

type racesim struct {
	tier string
}

// raceMailbox is how user code would hand a primitive value from one runtime to another while both run: guarded by a
// real mutex (that happens-before edge is part of the scenario, not of the scheduler).
type raceMailbox struct {
	mu  sync.Mutex
	box []goja.Value
}

func (m *raceMailbox) install(rt *goja.Runtime) {
	rt.Set("MB_PUT", func(call goja.FunctionCall) goja.Value {
		v := call.Argument(0)
		if _, isObj := v.(*goja.Object); !isObj {
			m.mu.Lock()
			m.box = append(m.box, v)
			m.mu.Unlock()
		}
		return goja.Undefined()
	})
	rt.Set("MB_GET", func(call goja.FunctionCall) goja.Value {
		k := int(call.Argument(0).ToInteger())
		m.mu.Lock()
		defer m.mu.Unlock()
		if len(m.box) == 0 {
			return goja.Undefined()
		}
		return m.box[k%len(m.box)]
	})
}

// safeString: rendering a value or an error on the host side converts objects with the script's own toString /
// valueOf, which a generated program may have removed or broken; that is then a (deterministic) result like any other.
func safeString(f func() string) (s string) {
	defer func() {
		if x := recover(); x != nil {
			s = "UNPRINTABLE"
		}
	}()
	return f()
}

func runRaceScript(rt *goja.Runtime, prg *goja.Program, shared []goja.Value, times int, mb *raceMailbox, tid int) (outs []string, errs []string) {
	mb.install(rt)
	rt.Set("TID", tid)
	arr := make([]interface{}, len(shared))
	for i, v := range shared {
		arr[i] = v
	}
	rt.Set("SH", rt.NewArray(arr...))
	for i := 0; i < times; i++ {
		v, err := func() (v goja.Value, err error) {
			defer func() {
				if x := recover(); x != nil {
					err = fmt.Errorf("GO-PANIC: %v", x)
				}
			}()
			return rt.RunProgram(prg)
		}()
		if err != nil {
			errs = append(errs, safeString(func() string { return err.Error() }))
			outs = append(outs, "")
			continue
		}
		outs = append(outs, safeString(func() string { return v.String() }))
		errs = append(errs, "")
	}
	return
}

func (e *racesim) Run(t *core.Tape, want bool) *core.Result {
	res := &core.Result{}
	W, S := &t.W, &t.S

	specs := genSharedSpecs(W)
	src := genRaceProgram(W, len(specs))
	ntasks := 2 + W.Draw(3)
	if W.Draw(8) == 7 {
		ntasks = 5 + W.Draw(12)
	}
	times := 1 + W.Draw(3)
	handover := W.Draw(3) == 2

	// isolated reference: separately compiled program, separately constructed values, fresh runtime, no scheduler
	refPrg, err := goja.Compile("race.js", src, false)
	if err != nil {
		res.OutOfScope = "generated program does not compile: " + err.Error()
		return res
	}
	// (the reference is EXECUTED after the concurrent part: run first, it would initialise every lazily built
	// package-level table on this goroutine, and the go statements below would order that before all tasks)

	// the shared objects
	prg := goja.MustCompile("race.js", src, false)
	maker := goja.New()
	shared := buildShared(maker, specs)
	foreignObj := maker.NewObject()

	// schedule: pre-drawn on this goroutine, published to the tasks by the go statements
	sched := &raceSched{main: newBaton()}
	nd := 1536
	sched.dec = make([]uint16, nd)
	for i := range sched.dec {
		sched.dec[i] = uint16(S.Draw(1 << 12))
	}
	var wg sync.WaitGroup
	mailbox := &raceMailbox{}
	for i := 0; i < ntasks; i++ {
		sched.tasks = append(sched.tasks, &raceTask{id: i, bt: newBaton()})
	}
	prevTick := goja.VerifTick
	goja.VerifTick = raceTick
	raceCur = sched
	for _, tk := range sched.tasks {
		tk := tk
		wg.Add(1)
		go func() {
			defer wg.Done()
			tk.setGID(curGoroutineID())
			tk.bt.wait() // wait to be scheduled for the first time
			tk.rt = goja.New()
			tk.out, tk.errs = runRaceScript(tk.rt, prg, shared, times, mailbox, tk.id)
			if handover {
				// an Object of another runtime must be rejected
				func() {
					defer func() {
						if x := recover(); x != nil {
							tk.foreign = append(tk.foreign, fmt.Sprint(x))
						} else {
							tk.foreign = append(tk.foreign, "accepted")
						}
					}()
					tk.rt.ToValue(foreignObj)
				}()
				// ... also when it travels inside a Go container or comes back from a native function
				for ci, mk := range []func() interface{}{
					func() interface{} { return []interface{}{1, foreignObj} },
					func() interface{} { return map[string]interface{}{"k": foreignObj} },
					func() interface{} { return &[]interface{}{foreignObj} },
					func() interface{} { return struct{ F interface{} }{foreignObj} },
					func() interface{} { return func() interface{} { return foreignObj } },
				} {
					acc := []string{"c[1]", "c.k", "c[0]", "c.F", "c()"}[ci]
					tk.rt.Set("c", mk())
					_, err := tk.rt.RunString("var got = " + acc + "; typeof got === 'object' && got !== null ? (got.leak = 1, 'ACCEPTED') : String(got)")
					if err == nil || !strings.Contains(err.Error(), "Illegal runtime transition") {
						tk.foreign = append(tk.foreign, fmt.Sprintf("container %s: foreign object accepted (err=%v)", acc, err))
					}
				}
				if err := tk.rt.Set("foreign", foreignObj); err != nil {
					tk.foreign = append(tk.foreign, "Set: "+err.Error())
				} else {
					func() {
						defer func() {
							if x := recover(); x != nil {
								tk.foreign = append(tk.foreign, fmt.Sprint(x))
							}
						}()
						tk.foreign = append(tk.foreign, "Set accepted")
					}()
				}
			}
			sched.yield(tk, true)
		}()
	}
	// start: give the baton to the first task and wait until all are done
	first := sched.tasks[int(sched.dec[0])%ntasks]
	first.slice = 1 + int(sched.dec[1])%24
	sched.cur = first.id
	sched.pos = 2
	first.bt.signal()
	sched.main.wait()
	wg.Wait() // real happens-before edge: from here on the tasks' results may be read
	raceCur = nil
	goja.VerifTick = prevTick
	for _, tk := range sched.tasks {
		tk.bt.close()
	}
	sched.main.close()

	refRt := goja.New()
	refOut, refErr := runRaceScript(refRt, refPrg, buildShared(refRt, specs), times, &raceMailbox{}, 0)
	for _, e := range refErr {
		if strings.HasPrefix(e, "GO-PANIC") {
			res.OutOfScope = "the script crashes the engine when run alone: " + e
			return res
		}
	}

	res.Steps = sched.ticks
	res.Count("goroutine-switches", int64(sched.switches))
	if syncPointsBuilt {
		res.Count("lock-acquisition-scheduling-points", sched.syncPts)
		res.Count("goroutine-switches-at-lock-acquisitions", sched.syncSw)
		if sched.spins > 0 {
			res.Count("gosched-calls-in-goja-code", sched.spins)
		}
	}
	res.Count("tasks", int64(ntasks))
	res.Count("values-published-through-mailbox", int64(len(mailbox.box)))
	for _, sp := range specs {
		res.Count("shared-"+sp.kind, 1)
	}
	render := func() string {
		var sb strings.Builder
		fmt.Fprintf(&sb, "// %d goroutines x %d runs of one shared Program; shared values: ", ntasks, times)
		for i, sp := range specs {
			fmt.Fprintf(&sb, "SH[%d]=%s(%q) ", i, sp.kind, core.Trunc(sp.str, 24))
		}
		sb.WriteString("\n" + src)
		fmt.Fprintf(&sb, "// schedule (task,ticks): %v\n", sched.trace[:min(len(sched.trace), 80)])
		fmt.Fprintf(&sb, "// isolated result: %s\n", core.Trunc(strings.Join(refOut, " ## "), 600))
		return sb.String()
	}
	for _, tk := range sched.tasks {
		for i := range tk.out {
			if tk.out[i] != refOut[i] || tk.errs[i] != refErr[i] {
				res.Fail("result-differs-from-isolated-run", "result-differs", fmt.Sprintf("goroutine %d run %d produced a different result than the same script run alone", tk.id, i),
					render()+fmt.Sprintf("// goroutine %d run %d: %s err=%s\n// isolated          : %s err=%s\n", tk.id, i, core.Trunc(tk.out[i], 1500), tk.errs[i], core.Trunc(refOut[i], 1500), refErr[i]))
				break
			}
		}
		if handover {
			ok := len(tk.foreign) == 2 && strings.Contains(tk.foreign[0], "Illegal runtime transition") && strings.Contains(tk.foreign[1], "Illegal runtime transition")
			for _, f := range tk.foreign {
				if strings.Contains(f, "accepted") {
					ok = false
				}
			}
			if !ok {
				res.Fail("foreign-object-accepted", "foreign-object", fmt.Sprintf("goroutine %d: an Object of another Runtime was not rejected with a TypeError: %v", tk.id, tk.foreign), render())
			}
			res.Count("foreign-object-handover-rejected", 1)
		}
	}
	var kinds []string
	for _, sp := range specs {
		kinds = append(kinds, sp.kind)
	}
	res.Sig = fmt.Sprintf("t%d x%d sw%d %s %s", ntasks, times, sched.switches/8, strings.Join(kinds, ","), core.DigestLines([]string{fmt.Sprint(sched.trace)}))
	res.NonTrivial = sched.switches >= 2
	res.Digest = core.DigestLines(append(append([]string{src}, refOut...), fmt.Sprint(sched.trace)))
	if want {
		res.Sample = render()
	}
	return res
}

func init() {
	core.Register(&core.Spec{
		HangIsInfra: true,
		Property:    "C16", EngineName: "racesim (race build)", Race: true,
		New:       func(tier string) core.Engine { return &racesim{tier: tier} },
		QuickRuns: 4000, QuickCapS: 90, ThoroughRun: 400000, ThoroughCap: 1500,
		Rule: "a case = (generated program biased to constructs that embed mutable-looking objects: regex literals of both engines incl. stateful g/y, tagged templates, classes with private names and static blocks, eval/with/arguments functions, generators, rendered error stacks; 2-16 goroutines each with its own Runtime running the ONE compiled Program 1-3 times; 2-6 shared primitive values: lazily scanned imported Go strings, concatenations, UTF-16 strings, symbols, BigInts, numbers; a tape-chosen interleaving at VM-instruction granularity); distinct = distinct (task count, value kinds, realised schedule hash); non-trivial = at least two goroutine switches happened while tasks were running",
		Real: append(append([]string{}, realComponents...), "Go race detector", "real goroutines, one Runtime each"),
		Stub: []string{"goroutine scheduling order and slice lengths (tape-chosen; hand-off by raw pipe syscalls without happens-before edges)", "Math.random / Date not used"},
		Assumptions: []string{
			"interleaving granularity is the VM instruction plus every lock acquisition in goja code (instrumented build made by cmd/lockyield: a yield before each x.Lock()/x.RLock(), never taken while the goroutine holds a lock); between those points an instruction's Go code runs atomically (enough for happens-before based detection, which needs both accesses to occur, not to overlap, and for check-then-act sequences split across two critical sections)",
			"the race detector keeps a bounded access history per 8-byte word; a clean batch is evidence, not proof",
			"shared values are published to the goroutines by the go statement (creation edge), as user code would",
		},
		FaultKinds: []string{},
	})
}
