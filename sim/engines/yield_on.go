//go:build verifyield

package engines

import "github.com/dop251/goja/verifyield"

// Built only against the instrumented scratch copy of goja made by cmd/lockyield (scripts/build.sh race-yield).
func init() {
	verifyield.Hook = syncHook
	syncPointsBuilt = true
}

//go:norace
func syncHook(kind int) {
	if raceCur != nil {
		raceSyncHook(kind)
		return
	}
	hostSyncHook(kind)
}
