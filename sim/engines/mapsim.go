package engines

import (
	"fmt"
	"math"
	"math/big"
	"strings"
	"sync"

	"github.com/dop251/goja"

	"verif/sim/core"
)

// mapsim (C18): 2-4 cooperative client tasks share 1-2 Map/Set collections inside one real Runtime. The workload track
// decides what the clients are (their step lists, the key pool, the collection types); the schedule track decides which
// client performs its next step at every scheduling point: between top-level steps, inside every forEach callback and
// Go-side ForOf step, and inside every resumption of a generator whose for-of loop state lives in a suspended VM frame.
// Every step is applied, in the order in which it really happened, to a reference collection written from ECMA-262
// (mapsim_model.go) and every answer of goja is compared with the reference.

func init() {
	core.Register(&core.Spec{
		Property: "C18", EngineName: "mapsim",
		New:       func(tier string) core.Engine { return &mapsim{tier: tier} },
		QuickRuns: 60000, QuickCapS: 60, ThoroughRun: 3000000, ThoroughCap: 1200,
		Rule: "a case = (2-4 client step lists over 1-2 collections (Map, Set, symbol-property table of an ordinary object) and a 12-slot key pool, interleaving of their <= 40 steps including steps nested inside forEach callbacks, Go-side ForOf steps and generator resumptions); distinct = distinct realised interleaving shape (sequence of client/op-kind with nesting); non-trivial = at least two clients worked on the same collection and a live iterator (native iterator, forEach in progress, suspended generator, Go-side ForOf) was advanced after a mutation made by another client",
		Real: realComponents,
		Stub: []string{"the client tasks' scheduler (host native Y called from forEach callbacks and generator bodies; Go loop between top-level steps)", "the failing callback (Y throws a JS value)"},
		Assumptions: []string{
			"one Runtime is used from one goroutine, so every Map/Set operation is atomic and correctness is equality with the sequential reference model in schedule order",
			"result rendering on the JS side (helper kidx) identifies a returned key by === / NaN-check against the key table and does not use Map or Set",
			"Go-side Export() renders undefined and null both as nil; the two are not told apart in export comparisons",
			"the symbol-property table is exercised with data properties only: Object.assign / spread run no script code while they walk the table, so goja walking it with a live iterator where the specification takes a key snapshot first is not observable and not asserted (DESIGN 5.3)",
			"the order of string and index keys of the object carrying the symbol table is not asserted (an ordinary-object matter); asserted are their number, that they precede every symbol in Reflect.ownKeys and that for-in / Object.keys / entries / getOwnPropertyNames / JSON.stringify never list a symbol",
		},
		FaultKinds: []string{"callback-throw", "generator-throw", "goforof-throw", "iterable-throw"},
	})
}

type mapsim struct{ tier string }

// ---- setup script ----------------------------------------------------------------------------------------------

const msHelpers = `
var COLS = [], ITERS = [null, null, null], GT = [0, 0, 0];
var SCAN = [];
function setScan() { SCAN = Array.prototype.slice.call(arguments); }
function kidx(k) {
  // SCAN holds the canonical indices of the classes in this run's pool: looking there first is only a shortcut, the
  // canonical representative of a class is === to k exactly when the first matching element of KEYS is in that class
  for (var j = 0; j < SCAN.length; j++) {
    var y = KEYS[SCAN[j]];
    if (y === k || (y !== y && k !== k)) return (k === 0 && 1 / k < 0) ? -2 : SCAN[j];
  }
  for (var i = 0; i < KEYS.length; i++) {
    var x = KEYS[i];
    if (x === k || (x !== x && k !== k)) return (k === 0 && 1 / k < 0) ? -2 : i;
  }
  return -1;
}
function rk(k) { return "K" + kidx(k); }
function rv(v) { return (typeof v === "number" && v >= 1000) ? String(v) : (v === undefined ? "u" : "?" + typeof v); }
function ren(rkind, e) {
  switch (rkind) {
  case 0: return (Array.isArray(e) && e.length === 2) ? rk(e[0]) + "=" + rv(e[1]) : "BADENTRY";
  case 1: return rk(e);
  case 2: return rv(e);
  default: return (Array.isArray(e) && e.length === 2) ? rk(e[0]) + "=" + rk(e[1]) : "BADENTRY";
  }
}
function rlist(rkind, a) {
  var s = "";
  for (var i = 0; i < a.length; i++) s += (i ? "," : "") + ren(rkind, a[i]);
  return "[" + s + "]";
}
var KINDS = [];
function R(c, s) { return s + "#" + (KINDS[c] === 2 ? Object.getOwnPropertySymbols(COLS[c]).length : COLS[c].size); }
function mkCol(c, kind) { KINDS[c] = kind; COLS[c] = kind === 2 ? {} : kind === 1 ? new Set() : new Map(); return COLS[c]; }
function selfcheck() { var a = []; for (var i = 0; i < KEYS.length; i++) a.push(kidx(KEYS[i])); return a.join(","); }
function op_set(c, k, v) { var m = COLS[c]; return R(c, m.set(KEYS[k], v) === m ? "ok" : "BADRET"); }
function op_add(c, k) { var m = COLS[c]; return R(c, m.add(KEYS[k]) === m ? "ok" : "BADRET"); }
function op_get(c, k) { return R(c, rv(COLS[c].get(KEYS[k]))); }
function op_has(c, k) { return R(c, String(COLS[c].has(KEYS[k]))); }
function op_delete(c, k) { return R(c, String(COLS[c].delete(KEYS[k]))); }
function op_clear(c) { return R(c, COLS[c].clear() === undefined ? "ok" : "BADRET"); }
function op_size(c) { return R(c, "ok"); }
function op_open(c, slot, kind) {
  var m = COLS[c];
  ITERS[slot] = kind === 0 ? m.entries() : kind === 1 ? m.keys() : kind === 2 ? m.values() : m[Symbol.iterator]();
  return R(c, typeof ITERS[slot].next === "function" && ITERS[slot][Symbol.iterator]() === ITERS[slot] ? "ok" : "BADITER");
}
function op_next(c, slot, rkind) {
  var r = ITERS[slot].next();
  if (typeof r !== "object" || r === null) return R(c, "BADRESULT");
  if (r.done === true) return R(c, r.value === undefined ? "d" : "BADDONE");
  return R(c, r.done === false ? ren(rkind, r.value) : "BADFLAG");
}
function op_forEach(c, tok, isSet) {
  var m = COLS[c], T = {};
  var r = m.forEach(function (a, b, mm) {
    Y(tok, isSet ? rk(a) + "=" + rk(b) : rk(b) + "=" + rv(a), mm === m && this === T && arguments.length === 3);
  }, T);
  return R(c, r === undefined ? "ok" : "BADRET");
}
function* GEN(m, slot, gkind, rkind) {
  var it = gkind === 0 ? m : gkind === 1 ? m.keys() : gkind === 2 ? m.values() : m.entries();
  for (const e of it) { var s = ren(rkind, e); Y(GT[slot], s, true); yield s; }
}
function* GEND(m, slot) {
  for (const [k, v] of m) { var s = rk(k) + "=" + rv(v); Y(GT[slot], s, true); yield s; }
}
function op_gopen(c, slot, gkind, rkind) {
  // the collection is bound now (not at the first resumption): the slot may hold a re-created collection by then
  ITERS[slot] = gkind === 4 ? GEND(COLS[c], slot) : GEN(COLS[c], slot, gkind, rkind);
  return R(c, "ok");
}
function op_gnext(c, slot, tok) {
  GT[slot] = tok;
  var r = ITERS[slot].next();
  if (r.done === true) return R(c, r.value === undefined ? "d" : "BADDONE");
  return R(c, r.done === false ? String(r.value) : "BADFLAG");
}
function op_greturn(c, slot) {
  var r = ITERS[slot].return(7);
  return R(c, r.done === true && r.value === 7 ? "d" : "BADRETURN");
}
function op_spread(c, which, rkind) {
  var m = COLS[c];
  var a = which === 0 ? [...m] : which === 1 ? [...m.keys()] : which === 2 ? [...m.values()] : Array.from(m.entries());
  return R(c, rlist(rkind, a));
}
// ---- population / re-creation of a collection through its constructor ----
var XCNT = 0;
class XSet extends Set { add(v) { XCNT++; return super.add(v); } }
class XMap extends Map { set(k, v) { XCNT++; return super.set(k, v); } }
function getCol(c) { return COLS[c]; }
function instrumented(items, tok) {
  var o = {};
  o[Symbol.iterator] = function () {
    var i = 0;
    return { next: function () { YI(tok); return i < items.length ? {value: items[i++], done: false} : {value: undefined, done: true}; } };
  };
  return o;
}
function rbuilt(c, isSet, n, cnt) { return R(c, rlist(isSet ? 1 : 0, [...n]) + "/" + n.size + " adder-calls:" + cnt); }
function op_install(c, isSet, n) { COLS[c] = n; return rbuilt(c, isSet, n, -1); }
function op_rebuild(c, isSet, src, form, adder, pairObj, tok /*, key1, value1, key2, value2, ... */) {
  var items = [], direct = null, i;
  if (src >= 0) {
    var s = COLS[src];
    items = isSet ? (KINDS[src] === 1 ? [...s] : [...s.keys()]) : [...s];
    if (arguments.length <= 7) direct = isSet ? (KINDS[src] === 1 ? (pairObj ? s.values() : s) : s.keys()) : (pairObj ? s.entries() : s);
  }
  for (i = 7; i + 1 < arguments.length; i += 2) {
    var k = KEYS[arguments[i]], v = arguments[i + 1];
    items.push(isSet ? k : (pairObj ? {0: k, 1: v, length: 2} : [k, v]));
  }
  var it;
  switch (form) {
  case 0: it = items; break;
  case 1: it = direct !== null ? direct : items[Symbol.iterator](); break;
  case 2: it = (function* () { for (var j = 0; j < items.length; j++) yield items[j]; })(); break;
  case 3: it = instrumented(items, tok); break;
  default: it = items[Symbol.iterator]();
  }
  var C = isSet ? Set : Map, P = C.prototype, name = isSet ? "add" : "set", n, cnt = -1;
  if (adder === 1) {
    var orig = P[name];
    cnt = 0;
    P[name] = function () { if (COLS.indexOf(this) < 0) cnt++; return orig.apply(this, arguments); };
    try { n = new C(it); } finally { P[name] = orig; }
  } else if (adder === 2) {
    XCNT = 0;
    n = isSet ? new XSet(it) : new XMap(it);
    cnt = XCNT;
  } else n = new C(it);
  COLS[c] = n;
  return rbuilt(c, isSet, n, form === 3 ? "-" : cnt);
}
// ---- symbol-property table of an ordinary object (KINDS[c] === 2) ----
function sidx(k) { for (var i = 0; i < NSYM; i++) if (PKEYS[i] === k) return i; return -1; }
function rsyms(o, a) {
  // symbols of the key list a with the values they have in o; flags anything that is not a string before the symbols
  var s = "", seenSym = false, bad = "";
  for (var i = 0; i < a.length; i++) {
    var x = a[i];
    if (typeof x === "symbol") { seenSym = true; s += (s ? "," : "") + "S" + sidx(x) + "=" + rv(o[x]); }
    else if (typeof x !== "string") bad = "BADKEYTYPE";
    else if (seenSym) bad = "STRING-AFTER-SYMBOL";
  }
  return "[" + s + "]" + bad;
}
function nstr(a) { var n = 0; for (var i = 0; i < a.length; i++) if (typeof a[i] === "string") n++; return n; }
function sy_set(c, k, v, how) {
  var o = COLS[c], key = PKEYS[k], r = "ok";
  switch (how) {
  case 0: o[key] = v; break;
  case 1: if (Object.defineProperty(o, key, {value: v, writable: true, enumerable: true, configurable: true}) !== o) r = "BADRET"; break;
  case 2: if (Object.defineProperty(o, key, {value: v, writable: true, enumerable: false, configurable: true}) !== o) r = "BADRET"; break;
  case 3: if (Object.defineProperty(o, key, {value: v, writable: true, enumerable: true, configurable: false}) !== o) r = "BADRET"; break;
  default: if (Reflect.set(o, key, v) !== true) r = "false";
  }
  return R(c, r);
}
function sy_get(c, k) { return R(c, rv(COLS[c][PKEYS[k]])); }
function sy_has(c, k) {
  var o = COLS[c], key = PKEYS[k], d = Object.getOwnPropertyDescriptor(o, key);
  return R(c, (key in o ? "t" : "f") + (Object.prototype.hasOwnProperty.call(o, key) ? "t" : "f") + (Reflect.has(o, key) ? "t" : "f") +
    (o.propertyIsEnumerable(key) ? "e" : "-") +
    (d ? (d.enumerable ? "E" : "-") + (d.configurable ? "C" : "-") + (d.writable ? "W" : "-") + ("get" in d ? "ACCESSOR" : "") + ":" + rv(d.value) : "none"));
}
function sy_delete(c, k, how) { var o = COLS[c], key = PKEYS[k]; return R(c, String(how ? Reflect.deleteProperty(o, key) : delete o[key])); }
function sy_clear(c) {
  var o = COLS[c], a = Object.getOwnPropertySymbols(o), n = 0;
  for (var i = 0; i < a.length; i++) if (delete o[a[i]]) n++;
  return R(c, "deleted:" + n);
}
function sy_snap(c, which) {
  var o = COLS[c];
  if (which === 0) return R(c, rsyms(o, Object.getOwnPropertySymbols(o)));
  var a = Reflect.ownKeys(o);
  return R(c, rsyms(o, a) + "/" + nstr(a));
}
function sy_copy(c, which) {
  var o = COLS[c], n = which === 0 ? Object.assign({}, o) : which === 1 ? {...o} : Object.assign(Object.create(null), o);
  return R(c, rsyms(n, Reflect.ownKeys(n)) + "/" + Object.keys(n).length);
}
function sy_forin(c) {
  var o = COLS[c], n = 0, bad = "";
  for (var k in o) { if (typeof k !== "string") bad = "BADKEYTYPE"; n++; }
  var ks = Object.keys(o), es = Object.entries(o), ns = Object.getOwnPropertyNames(o);
  if (nstr(ks) !== ks.length || nstr(ns) !== ns.length) bad = "BADKEYTYPE";
  for (var i = 0; i < es.length; i++) if (typeof es[i][0] !== "string") bad = "BADKEYTYPE";
  var j = JSON.stringify(o);
  return R(c, "forin:" + n + bad + " keys:" + ks.length + " entries:" + es.length + " json:" + Object.keys(JSON.parse(j)).length + (j.indexOf("Symbol") >= 0 ? "SYMBOL-IN-JSON" : "") + " names:" + ns.length);
}
function op_copy(c, isSet, which) {
  var m = COLS[c];
  var n = isSet ? (which ? new Set(m.values()) : new Set(m)) : (which ? new Map(m.entries()) : new Map(m));
  return R(c, rlist(isSet ? 1 : 0, [...n]) + "/" + n.size);
}
`

var msFnNames = []string{"mkCol", "setScan", "ren", "op_set", "op_add", "op_get", "op_has", "op_delete", "op_clear", "op_size", "op_open", "op_next",
	"op_forEach", "op_gopen", "op_gnext", "op_greturn", "op_spread", "op_copy",
	"getCol", "op_install", "op_rebuild",
	"sy_set", "sy_get", "sy_has", "sy_delete", "sy_clear", "sy_snap", "sy_copy", "sy_forin"}

var (
	msOnce sync.Once
	msUni  *msUniverse
	msProg *goja.Program
)

func msSetGlobals(rt *goja.Runtime) {
	rt.Set("GO_F1", rt.ToValue(float64(1)))
	rt.Set("GO_F15", rt.ToValue(float64(1.5)))
	rt.Set("GO_NEGZERO", rt.ToValue(math.Copysign(0, -1)))
	rt.Set("GO_NAN", rt.ToValue(math.Float64frombits(0xfff8000000000123)))
	rt.Set("GO_S1", rt.ToValue("1"))
	rt.Set("GO_S0", rt.ToValue("0"))
	rt.Set("GO_ABC", rt.ToValue("abc"))
	rt.Set("GO_EMPTY", rt.ToValue(""))
	rt.Set("GO_HELLO", rt.ToValue(msGoHello))
	rt.Set("GO_ASCII_LONG", rt.ToValue(msGoAsciiLong))
	rt.Set("GO_UNI_LONG", rt.ToValue(msGoUniLong))
}

// msInit builds the key universe, compiles the constant setup script once per process and checks the harness's own
// key table: the helper that translates a key coming back from goja into a table index must send every representation
// of a class to the class's canonical index. If that fails the class table above (or goja's ===) is wrong and nothing
// the engine reports could be trusted, so it is a harness failure, not a finding.
func msInit() {
	msOnce.Do(func() {
		msUni = buildUniverse()
		src := `var SYM_A = Symbol("sym-A"), OBJ_A = {id: 1}, OBJ_B = {id: 2}, ARR_A = [];` + "\n" + msUni.keysSrc + msPKeysSrc() + msHelpers
		p, err := goja.Compile("mapsim-setup", src, false)
		if err != nil {
			panic("mapsim: setup script does not compile: " + err.Error())
		}
		msProg = p
		rt := goja.New()
		msSetGlobals(rt)
		if _, err := rt.RunProgram(p); err != nil {
			panic("mapsim: setup script failed: " + err.Error())
		}
		v, err := rt.RunString("selfcheck()")
		if err != nil {
			panic("mapsim: selfcheck failed: " + err.Error())
		}
		var want []string
		for i := range msUni.exprs {
			if msNegZeroExprs[msUni.exprs[i]] {
				want = append(want, "-2")
				continue
			}
			want = append(want, fmt.Sprint(msUni.repOf[msUni.classOf[i]]))
		}
		if got := v.String(); got != strings.Join(want, ",") {
			panic("mapsim: key table self-check failed (=== disagrees with the hand-written SameValueZero classes)\n got  " + got + "\n want " + strings.Join(want, ","))
		}
	})
}

// ---- workload --------------------------------------------------------------------------------------------------

const (
	mopSet = iota
	mopGet
	mopHas
	mopDelete
	mopSize
	mopClear
	mopOpen
	mopAdvance
	mopForEach
	mopGenOpen
	mopSpread
	mopCopy
	mopExport
	mopGoForOf
	mopGenReturn
	mopRebuild
	nMops
)

var mopNames = [...]string{"set/add", "get", "has", "delete", "size", "clear", "open-iterator", "advance-iterator", "forEach", "open-generator", "spread", "copy-construct", "go-Export", "go-ForOf", "generator-return", "construct-from-iterable"}
var mopWeights = [...]int{22, 4, 4, 13, 2, 3, 8, 24, 7, 6, 2, 2, 3, 3, 1, 4}
var mopLetters = [...]byte{'s', 'g', 'h', 'd', 'z', 'c', 'o', 'a', 'f', 'G', 'p', 'y', 'x', 'F', 'r', 'R'}

const (
	msPoolSize  = 12
	msMaxSteps  = 40
	msMaxIters  = 3
	msMaxVisits = 200 // more visits in one forEach/ForOf than any history of <= 40 steps can legitimately cause
)

type msStep struct{ op, col, key, sel int }

type msClient struct {
	id     int
	steps  []msStep
	pc     int
	active bool // in the middle of a step (a forEach, generator resumption or ForOf on the Go stack)
}

var iterKindNames = [...]string{"entries()", "keys()", "values()", "[Symbol.iterator]()"}
var genKindNames = [...]string{"for-of m", "for-of m.keys()", "for-of m.values()", "for-of m.entries()", "for-of m with [k,v] destructuring"}

type msIter struct {
	slot, owner, col int
	isGen            bool
	kind, rkind      int
	cur              *msCursor
	dead             bool // generator finished / threw / returned
	checkedDone      bool // "stays done" was observed once after exhaustion
}

func (it *msIter) exhausted() bool { return it.cur.done || it.dead }

func (it *msIter) name() string {
	if it.isGen {
		return fmt.Sprintf("generator[%s]@slot%d", genKindNames[it.kind], it.slot)
	}
	return fmt.Sprintf("%s@slot%d", iterKindNames[it.kind], it.slot)
}

const (
	frForEach = iota
	frGen
	frGoForOf
	frBuild // the iterable handed to a Map/Set constructor is being consumed
)

var frameNames = [...]string{"forEach", "generator", "goForOf", "constructor-iterable"}

type msFrame struct {
	tok, kind, client, depth int
	cur                      *msCursor
	rkind                    int
	visits                   int
	faulted                  bool
	lastExp                  string
	opname                   string
}

type msLine struct {
	depth    int
	text     string
	got, exp string
	open     bool // result not known yet
	bad      bool
}

type msRun struct {
	res  *core.Result
	W, S *core.Track
	u    *msUniverse
	rt   *goja.Runtime
	fn   map[string]goja.Callable

	pool    [msPoolSize]int
	spool   [msPoolSize]int // symbol-table runs: indices into PKEYS
	psyms   []*goja.Symbol  // PKEYS[0..NSYM) as Go values
	keysObj *goja.Object    // KEYS
	cols    []*msColl
	colObjs []*goja.Object
	clients []*msClient
	iters   [msMaxIters]*msIter
	frames  []*msFrame

	tokSeq, writes, seq int
	hist                []msLine
	sig                 strings.Builder

	faulty     bool
	failed     bool
	nontrivial bool

	failRule, failSig, failMsg string
}

func colType(c *msColl) string {
	if c.isSym {
		return "SymTab"
	}
	if c.isSet {
		return "Set"
	}
	return "Map"
}

func (r *msRun) fail(rule, ctx, msg string) {
	if r.failed {
		return
	}
	r.failed = true
	r.failRule, r.failSig, r.failMsg = rule, rule+" "+ctx, msg
}

func (r *msRun) call(name string, args ...goja.Value) (string, error) {
	v, err := r.fn[name](goja.Undefined(), args...)
	if err != nil {
		return "", err
	}
	return v.String(), nil
}

func (r *msRun) iv(i int) goja.Value { return r.rt.ToValue(i) }

func (r *msRun) line(depth int, text string) int {
	r.hist = append(r.hist, msLine{depth: depth, text: text, open: true})
	return len(r.hist) - 1
}

// finish records goja's answer and the reference's answer for a history line and compares them. Both have the form
// "<result>#<size>".
func (r *msRun) finish(li int, got, exp, rule, ctx string) {
	l := &r.hist[li]
	l.got, l.exp, l.open = got, exp, false
	if got == exp {
		return
	}
	l.bad = true
	gm, gs := splitSize(got)
	em, es := splitSize(exp)
	if gm == em && gs != es {
		r.fail("size-mismatch", ctx, fmt.Sprintf("%s: size is %s, the reference collection has %s live entries", l.text, gs, es))
		return
	}
	r.fail(rule, ctx, fmt.Sprintf("%s: goja answered %s, the reference collection answers %s", l.text, got, exp))
}

func splitSize(s string) (string, string) {
	if i := strings.LastIndexByte(s, '#'); i >= 0 {
		return s[:i], s[i+1:]
	}
	return s, ""
}

func (r *msRun) renderEntry(c *msColl, idx, rkind int) string {
	e := c.entries[idx]
	k := r.u.repOf[e.class]
	switch rkind {
	case 0:
		return fmt.Sprintf("K%d=%d", k, e.val)
	case 1:
		return fmt.Sprintf("K%d", k)
	case 2:
		return fmt.Sprintf("%d", e.val)
	}
	return fmt.Sprintf("K%d=K%d", k, k)
}

func (r *msRun) renderLive(c *msColl, rkind int) string {
	var sb strings.Builder
	sb.WriteByte('[')
	for i, idx := range c.liveList() {
		if i > 0 {
			sb.WriteByte(',')
		}
		sb.WriteString(r.renderEntry(c, idx, rkind))
	}
	sb.WriteByte(']')
	return sb.String()
}

func withSize(s string, c *msColl) string { return fmt.Sprintf("%s#%d", s, c.live) }

// advance moves a reference cursor by one step and maintains the reach counters.
func (r *msRun) advance(cur *msCursor, owner int, what int) (int, bool) {
	coll := cur.coll
	wasDone := cur.done
	var sawDel, sawClear, sawApp, other bool
	for _, m := range coll.muts[cur.mutSeen:] {
		switch m.kind {
		case 'd':
			sawDel = true
		case 'c':
			sawClear = true
		case 'a':
			sawApp = true
		}
		if m.client != owner {
			other = true
		}
	}
	cur.mutSeen = len(coll.muts)
	prev := cur.last
	curDeleted := prev >= 0 && !coll.entries[prev].live
	idx, ok := cur.next()
	if wasDone {
		if sawApp {
			r.res.Count("exhausted-iterator-stays-done-after-append", 1)
		}
		return idx, ok
	}
	if sawDel {
		r.res.Count("iterator-advanced-after-delete", 1)
	}
	if sawClear {
		r.res.Count("iterator-advanced-after-clear", 1)
	}
	if sawApp {
		r.res.Count("iterator-advanced-after-append", 1)
	}
	if curDeleted {
		r.res.Count("iterator-advanced-from-deleted-current-entry", 1)
		if e := coll.entries[prev]; e.era > cur.era0 {
			for i := prev - 1; i >= 0 && coll.entries[i].era == e.era; i-- {
				if coll.entries[i].live {
					// the iterator survived a clear(), moved on into the refilled entries beyond the first one, and the
					// entry it stands on was deleted while an earlier refilled entry survives
					r.res.Count("iterator-survived-clear-then-advanced-from-deleted-current-entry", 1)
					break
				}
			}
		}
		if prev > 0 && !coll.entries[prev-1].live {
			r.res.Count("iterator-advanced-from-deleted-current-entry-with-deleted-predecessor", 1)
		}
	}
	if other {
		r.nontrivial = true
		r.res.Count("iterator-advanced-after-mutation-by-other-client", 1)
	}
	if what == frGen && (sawDel || sawClear || sawApp) {
		r.res.Count("generator-client-resumed-after-mutation", 1)
	}
	if what == frForEach && (sawDel || sawClear || sawApp) {
		r.res.Count("forEach-continued-after-mutation-inside-callback", 1)
	}
	if ok {
		e := coll.entries[idx]
		if prev >= 0 && coll.entries[prev].era < e.era {
			r.res.Count("iterator-continues-into-entries-added-after-clear", 1)
		}
		if idx-prev > 1 {
			r.res.Count("iterator-skipped-tombstones", 1)
		}
		bit := uint64(1) << uint(e.class)
		if cur.visited&bit != 0 {
			r.res.Count("readd-after-delete-seen-by-live-iterator", 1)
		}
		cur.visited |= bit
	} else {
		r.res.Count("iterator-reached-end", 1)
	}
	return idx, ok
}

// visit is one callback invocation / generator loop turn / ForOf step reported by goja.
func (r *msRun) visit(fr *msFrame, got string, ctxOK bool) {
	fr.visits++
	idx, ok := r.advance(fr.cur, fr.client, fr.kind)
	exp := "<no further entry: the iteration is over>"
	if ok {
		exp = r.renderEntry(fr.cur.coll, idx, fr.rkind)
	}
	fr.lastExp = exp
	li := r.line(fr.depth+1, fmt.Sprintf("%s visit %d", frameNames[fr.kind], fr.visits))
	l := &r.hist[li]
	l.got, l.exp, l.open = got, exp, false
	ctx := fr.opname + " " + colType(fr.cur.coll)
	if got != exp {
		l.bad = true
		r.fail("iterator-visit-mismatch", ctx, fmt.Sprintf("%s visited %s, the reference iteration visits %s", fr.opname, got, exp))
	} else if !ctxOK {
		l.bad = true
		r.fail("map-result-mismatch", ctx, "forEach callback did not receive (value, key, collection) with the given thisArg")
	}
	if fr.visits > msMaxVisits {
		r.fail("iterator-visit-mismatch", ctx, fmt.Sprintf("%s does not terminate (%d visits)", fr.opname, fr.visits))
	}
}

var msNestTable = [...]int{0, 1, 0, 2, 0, 1, 0, 3}

// yieldPoint is a scheduling point inside an iteration in progress: other clients may run their next steps right here.
// It returns true if the callback is to fail.
func (r *msRun) yieldPoint(fr *msFrame) bool {
	if r.failed {
		return false
	}
	n := msNestTable[r.S.Draw(len(msNestTable))]
	for i := 0; i < n && !r.failed; i++ {
		var el []*msClient
		for _, cl := range r.clients {
			if !cl.active && cl.pc < len(cl.steps) {
				el = append(el, cl)
			}
		}
		if len(el) == 0 {
			break
		}
		cl := el[r.S.Draw(len(el))]
		switch fr.kind {
		case frForEach:
			r.res.Count("nested-steps-inside-forEach", 1)
		case frGen:
			r.res.Count("nested-steps-inside-generator-body", 1)
		case frGoForOf:
			r.res.Count("nested-steps-inside-go-ForOf", 1)
		case frBuild:
			r.res.Count("nested-steps-inside-constructor-iterable", 1)
		}
		r.execStep(cl, fr.depth+1)
	}
	if r.faulty && !r.failed && r.S.Chance(1, 5) {
		fr.faulted = true
		return true
	}
	return false
}

// top returns the innermost iteration in progress if the token handed to the callback belongs to it.
func (r *msRun) top(tok int) *msFrame {
	if len(r.frames) == 0 || r.frames[len(r.frames)-1].tok != tok {
		return nil
	}
	return r.frames[len(r.frames)-1]
}

func (r *msRun) nativeY(call goja.FunctionCall) goja.Value {
	tok := int(call.Argument(0).ToInteger())
	fr := r.top(tok)
	if fr == nil {
		// a callback or generator body ran although its step is not the innermost one in progress
		li := r.line(len(r.frames), fmt.Sprintf("callback with token %d outside its iteration", tok))
		r.hist[li].got, r.hist[li].exp, r.hist[li].open, r.hist[li].bad = call.Argument(1).String(), "<no call>", false, true
		r.fail("iterator-visit-mismatch", "stray-callback", fmt.Sprintf("a forEach callback / generator body ran (visiting %s) outside the step that owns it", call.Argument(1).String()))
		panic(r.rt.ToValue("mapsim-abort"))
	}
	r.visit(fr, call.Argument(1).String(), call.Argument(2).ToBoolean())
	if r.failed {
		panic(r.rt.ToValue("mapsim-abort"))
	}
	if r.yieldPoint(fr) {
		if r.S.Draw(2) == 0 {
			panic(r.rt.ToValue(fmt.Sprintf("injected-%d", fr.tok)))
		}
		panic(r.rt.NewTypeError("injected-%d", fr.tok))
	}
	if r.failed {
		panic(r.rt.ToValue("mapsim-abort"))
	}
	return goja.Undefined()
}

// nativeYI is called by the instrumented iterator a collection is being constructed from, before it produces each
// element: a scheduling point in the middle of the construction.
func (r *msRun) nativeYI(call goja.FunctionCall) goja.Value {
	tok := int(call.Argument(0).ToInteger())
	fr := r.top(tok)
	if fr == nil || fr.kind != frBuild {
		li := r.line(len(r.frames), fmt.Sprintf("iterator step with token %d outside its construction", tok))
		r.hist[li].got, r.hist[li].exp, r.hist[li].open, r.hist[li].bad = "next() called", "<no call>", false, true
		r.fail("map-result-mismatch", "stray-iterator-step", "the iterable handed to a constructor was stepped outside the construction step")
		panic(r.rt.ToValue("mapsim-abort"))
	}
	fr.visits++
	if fr.visits > msMaxVisits {
		r.fail("map-result-mismatch", "constructor", "the constructor keeps stepping its iterable after it reported done")
	}
	if r.failed {
		panic(r.rt.ToValue("mapsim-abort"))
	}
	if r.yieldPoint(fr) {
		panic(r.rt.NewTypeError("injected-%d", fr.tok))
	}
	if r.failed {
		panic(r.rt.ToValue("mapsim-abort"))
	}
	return goja.Undefined()
}

func (r *msRun) push(kind, client, depth int, cur *msCursor, rkind int, opname string) *msFrame {
	r.tokSeq++
	fr := &msFrame{tok: r.tokSeq, kind: kind, client: client, depth: depth, cur: cur, rkind: rkind, opname: opname}
	r.frames = append(r.frames, fr)
	r.sig.WriteByte('(')
	return fr
}

func (r *msRun) pop() {
	r.frames = r.frames[:len(r.frames)-1]
	r.sig.WriteByte(')')
}

func errText(err error) string {
	if ex, ok := err.(*goja.Exception); ok {
		return "throw " + ex.Value().String()
	}
	return "error " + err.Error()
}

// freeSlot finds a slot for a new iterator of the client: an empty one, one whose iterator is exhausted, else the
// client's own lowest slot (the old iterator is dropped). -1: none.
func (r *msRun) freeSlot(owner int) int {
	for i, it := range r.iters {
		if it == nil {
			return i
		}
	}
	for i, it := range r.iters {
		if it.exhausted() {
			return i
		}
	}
	for i, it := range r.iters {
		if it.owner == owner {
			return i
		}
	}
	return -1
}

func (r *msRun) ownIter(owner, sel int, genOnly bool) *msIter {
	var live, done []*msIter
	for _, it := range r.iters {
		if it == nil || it.owner != owner || (genOnly && !it.isGen) {
			continue
		}
		if !it.exhausted() {
			live = append(live, it)
		} else if !it.checkedDone && !genOnly {
			done = append(done, it)
		}
	}
	if len(live) > 0 {
		return live[sel%len(live)]
	}
	if len(done) > 0 {
		return done[sel%len(done)]
	}
	return nil
}

func msExportRepr(x interface{}) string {
	switch v := x.(type) {
	case nil:
		return "nil"
	case int64:
		return msNum(float64(v))
	case float64:
		return msNum(v)
	case string:
		return "s:" + v
	case bool:
		return fmt.Sprintf("b:%v", v)
	case *big.Int:
		return "big:" + v.String()
	case map[string]interface{}:
		return "o:" + fmt.Sprint(v["id"])
	case []interface{}:
		return fmt.Sprintf("a:%d", len(v))
	}
	return fmt.Sprintf("?%T", x)
}

// execStep performs the client's next step as one (outermost or nested) call into the runtime.
func (r *msRun) execStep(cl *msClient, depth int) {
	st := cl.steps[cl.pc]
	cl.pc++
	cl.active = true
	defer func() { cl.active = false }()
	r.res.Steps++
	r.seq++
	u := r.u
	if st.op == mopAdvance && st.sel%4 != 0 {
		// An iterator that has lived through a clear() of its collection is kept alive: while fewer than two entries
		// have been put back its owner mostly refills instead of advancing (advancing now would just exhaust it), so
		// that iterators regularly continue deep into the entries added after a clear.
		if it0 := r.ownIter(cl.id, st.sel, false); it0 != nil && !it0.exhausted() && it0.cur.coll == r.cols[it0.col] && it0.cur.coll.live < 2 && it0.cur.coll.clears > it0.cur.era0 {
			st.op, st.col = mopSet, it0.col
			r.res.Count("refill-after-clear-under-live-iterator", 1)
		}
	}
	c := st.col
	coll := r.cols[c]
	coll.touched |= 1 << uint(cl.id)
	if coll.isSym {
		// a step on the symbol table unless it turns out to advance / close an iterator the client owns (on a Map or Set)
		own := (st.op == mopAdvance && r.ownIter(cl.id, st.sel, false) != nil) || (st.op == mopGenReturn && r.ownIter(cl.id, st.sel, true) != nil)
		if !own {
			r.execSym(cl, st, depth)
			return
		}
	}
	uni := r.pool[st.key]
	class := u.classOf[uni]
	op := st.op
	// Some deletes aim at an entry that exists and some writes at a key that was deleted before (the choice is still a
	// function of the tape: sel picks the entry, and a pool slot holding some representation of its key).
	retarget := func(cls, pick int) {
		var slots []int
		for _, pu := range r.pool {
			if u.classOf[pu] == cls {
				slots = append(slots, pu)
			}
		}
		if len(slots) > 0 {
			uni, class = slots[pick%len(slots)], cls
		}
	}
	var cursors []*msCursor // live cursors on this collection, in a fixed order
	for _, it := range r.iters {
		if it != nil && !it.exhausted() && it.cur.coll == coll {
			cursors = append(cursors, it.cur)
		}
	}
	for _, fr := range r.frames {
		if fr.cur.coll == coll && !fr.cur.done {
			cursors = append(cursors, fr.cur)
		}
	}
	switch {
	case op == mopDelete && st.sel%3 != 0 && coll.live > 0:
		ll := coll.liveList()
		target := ll[(st.sel/3)%len(ll)]
		if st.sel%3 == 1 {
			// prefer the entry a live iterator is standing on
			var on, deep []int
			for _, cu := range cursors {
				if cu.last >= 0 && coll.entries[cu.last].live {
					on = append(on, cu.last)
					if coll.entries[cu.last].era > cu.era0 && cu.last != ll[0] {
						deep = append(deep, cu.last) // ... of an iterator that lived through a clear() and moved on
					}
				}
			}
			if len(deep) > 0 {
				on = deep
			}
			if len(on) > 0 {
				target = on[(st.sel/3)%len(on)]
				r.res.Count("delete-of-entry-under-live-iterator", 1)
			}
		}
		retarget(coll.entries[target].class, st.sel/3)
	case op == mopSet && st.sel%4 == 1:
		var dead, seen []int
		for _, e := range coll.entries {
			if !e.live && coll.pos[e.class] < 0 {
				dead = append(dead, e.class)
				for _, cu := range cursors {
					if cu.visited&(1<<uint(e.class)) != 0 {
						seen = append(seen, e.class)
						break
					}
				}
			}
		}
		if len(seen) > 0 {
			dead = seen // a key some live iterator has already visited
		}
		if len(dead) > 0 {
			retarget(dead[(st.sel/4)%len(dead)], st.sel/4)
		}
	}

	// resolve steps that need something the client does not have right now
	var it *msIter
	slot := -1
	switch op {
	case mopGet:
		if coll.isSet {
			op = mopHas
		}
	case mopAdvance:
		if it = r.ownIter(cl.id, st.sel, false); it == nil {
			if st.sel&1 == 1 {
				op = mopGenOpen
			} else {
				op = mopOpen
			}
		}
	case mopGenReturn:
		if it = r.ownIter(cl.id, st.sel, true); it == nil {
			op = mopSize
		}
	}
	if (op == mopOpen || op == mopGenOpen) && coll.isSym {
		panic("mapsim: iterator requested on a symbol table")
	}
	if op == mopOpen || op == mopGenOpen {
		if slot = r.freeSlot(cl.id); slot < 0 {
			op = mopSize
		}
	}
	if it != nil {
		c = it.col
		coll = r.cols[c]
		coll.touched |= 1 << uint(cl.id)
	}
	ct := colType(coll)
	hdr := fmt.Sprintf("#%d client%d %s col%d:%s", r.seq, cl.id, mopNames[op], c, ct)
	letter := mopLetters[op]
	if op == mopAdvance && it.isGen {
		letter = 'A'
	}
	fmt.Fprintf(&r.sig, "%d%c", cl.id, letter)
	cv, kv := r.iv(c), r.iv(uni)
	ctx := mopNames[op] + " " + ct
	unexpected := func(li int, err error) {
		r.hist[li].got, r.hist[li].open, r.hist[li].bad = errText(err), false, true
		r.fail("unexpected-exception", ctx, fmt.Sprintf("%s: %s", r.hist[li].text, core.Trunc(errText(err), 300)))
	}
	alias := func() {
		if p := coll.pos[class]; p >= 0 && coll.entries[p].uni != uni {
			r.res.Count("lookup-through-different-representation-of-equal-key", 1)
		}
	}

	switch op {
	case mopSet:
		alias()
		hadTomb := false
		for _, e := range coll.entries {
			if e.class == class && !e.live {
				hadTomb = true
			}
		}
		var got string
		var err error
		var li, val int
		if coll.isSet {
			li = r.line(depth, fmt.Sprintf("%s add(%s)", hdr, u.keyName(uni)))
			got, err = r.call("op_add", cv, kv)
		} else {
			r.writes++
			val = 1000 + r.writes
			li = r.line(depth, fmt.Sprintf("%s set(%s, %d)", hdr, u.keyName(uni), val))
			got, err = r.call("op_set", cv, kv, r.iv(val))
		}
		if err != nil {
			unexpected(li, err)
			return
		}
		if !coll.set(class, uni, val, cl.id) && hadTomb {
			r.res.Count("readd-after-delete", 1)
		}
		r.finish(li, got, withSize("ok", coll), "map-result-mismatch", ctx)

	case mopGet:
		alias()
		li := r.line(depth, fmt.Sprintf("%s get(%s)", hdr, u.keyName(uni)))
		got, err := r.call("op_get", cv, kv)
		if err != nil {
			unexpected(li, err)
			return
		}
		exp := "u"
		if v, ok := coll.get(class); ok {
			exp = fmt.Sprint(v)
		}
		r.finish(li, got, withSize(exp, coll), "map-result-mismatch", ctx)

	case mopHas:
		alias()
		li := r.line(depth, fmt.Sprintf("%s has(%s)", hdr, u.keyName(uni)))
		got, err := r.call("op_has", cv, kv)
		if err != nil {
			unexpected(li, err)
			return
		}
		r.finish(li, got, withSize(fmt.Sprint(coll.pos[class] >= 0), coll), "map-result-mismatch", ctx)

	case mopDelete:
		alias()
		li := r.line(depth, fmt.Sprintf("%s delete(%s)", hdr, u.keyName(uni)))
		got, err := r.call("op_delete", cv, kv)
		if err != nil {
			unexpected(li, err)
			return
		}
		hit := coll.del(class, cl.id)
		if hit {
			r.res.Count("delete-hit", 1)
		}
		r.finish(li, got, withSize(fmt.Sprint(hit), coll), "map-result-mismatch", ctx)

	case mopSize:
		li := r.line(depth, hdr)
		got, err := r.call("op_size", cv)
		if err != nil {
			unexpected(li, err)
			return
		}
		r.finish(li, got, withSize("ok", coll), "size-mismatch", ctx)

	case mopClear:
		li := r.line(depth, hdr+" clear()")
		got, err := r.call("op_clear", cv)
		if err != nil {
			unexpected(li, err)
			return
		}
		if coll.live > 0 {
			r.res.Count("clear-of-nonempty", 1)
		}
		coll.clear(cl.id)
		r.finish(li, got, withSize("ok", coll), "map-result-mismatch", ctx)

	case mopOpen:
		kind := st.sel % 4
		rkind := msRkind(coll.isSet, kind)
		ni := &msIter{slot: slot, owner: cl.id, col: c, kind: kind, rkind: rkind, cur: newMsCursor(coll)}
		li := r.line(depth, fmt.Sprintf("%s ITERS[%d] = m.%s", hdr, slot, iterKindNames[kind]))
		got, err := r.call("op_open", cv, r.iv(slot), r.iv(kind))
		if err != nil {
			unexpected(li, err)
			return
		}
		r.iters[slot] = ni
		r.countLive()
		r.finish(li, got, withSize("ok", coll), "map-result-mismatch", ctx)

	case mopGenOpen:
		kind := st.sel % 5
		if kind == 4 && coll.isSet {
			kind = 0
		}
		rkind := 0
		if kind < 4 {
			k := kind
			if k == 0 {
				k = 3 // for-of m uses m[Symbol.iterator]
			} else if k == 3 {
				k = 0
			}
			rkind = msRkind(coll.isSet, k)
		}
		ni := &msIter{slot: slot, owner: cl.id, col: c, isGen: true, kind: kind, rkind: rkind, cur: newMsCursor(coll)}
		li := r.line(depth, fmt.Sprintf("%s ITERS[%d] = generator{%s}", hdr, slot, genKindNames[kind]))
		got, err := r.call("op_gopen", cv, r.iv(slot), r.iv(kind), r.iv(rkind))
		if err != nil {
			unexpected(li, err)
			return
		}
		r.iters[slot] = ni
		r.countLive()
		r.finish(li, got, withSize("ok", coll), "map-result-mismatch", ctx)

	case mopAdvance:
		ctx = "advance " + it.name()[:strings.IndexByte(it.name(), '@')] + " " + ct
		if !it.isGen {
			li := r.line(depth, fmt.Sprintf("%s ITERS[%d].next()   [%s]", hdr, it.slot, iterKindNames[it.kind]))
			got, err := r.call("op_next", cv, r.iv(it.slot), r.iv(it.rkind))
			if err != nil {
				unexpected(li, err)
				return
			}
			if it.cur.done {
				it.checkedDone = true
			}
			idx, ok := r.advance(it.cur, cl.id, -1)
			exp := "d"
			if ok {
				exp = r.renderEntry(it.cur.coll, idx, it.rkind)
			}
			if it.cur.coll != coll {
				r.res.Count("iterator-advanced-on-replaced-collection", 1)
			}
			r.finish(li, got, withSize(exp, coll), "iterator-visit-mismatch", ctx)
			return
		}
		// generator resumption: the loop inside the generator advances the collection's iterator, reports the entry
		// through Y (a scheduling point) and yields it
		li := r.line(depth, fmt.Sprintf("%s ITERS[%d].next()   [generator: %s]", hdr, it.slot, genKindNames[it.kind]))
		if it.exhausted() {
			it.checkedDone = true
		}
		fr := r.push(frGen, cl.id, depth, it.cur, it.rkind, "generator["+genKindNames[it.kind]+"]")
		got, err := r.call("op_gnext", cv, r.iv(it.slot), r.iv(fr.tok))
		r.pop()
		coll = r.cols[c] // a nested step may have re-created the collection in the slot
		if it.cur.coll != coll {
			r.res.Count("iterator-advanced-on-replaced-collection", 1)
		}
		if r.failed && r.hist[li].open {
			r.hist[li].got, r.hist[li].open = "(abandoned)", false
			return
		}
		if err != nil {
			if !fr.faulted {
				unexpected(li, err)
				return
			}
			r.res.Count("fault.generator-throw", 1)
			it.dead = true
			r.hist[li].got, r.hist[li].exp, r.hist[li].open = errText(err), "throw (injected)", false
			r.sizeProbe(c, depth)
			return
		}
		exp := fr.lastExp
		if fr.visits == 0 {
			exp = "d"
			if !it.dead {
				if idx, ok := r.advance(it.cur, cl.id, frGen); ok {
					exp = "d   <the generator ended, the reference iteration still has " + r.renderEntry(it.cur.coll, idx, it.rkind) + ">"
				}
			}
			it.dead = true
		}
		r.finish(li, got, withSize(exp, coll), "iterator-visit-mismatch", ctx)

	case mopGenReturn:
		li := r.line(depth, fmt.Sprintf("%s ITERS[%d].return(7)   [generator: %s]", hdr, it.slot, genKindNames[it.kind]))
		got, err := r.call("op_greturn", cv, r.iv(it.slot))
		if err != nil {
			unexpected(li, err)
			return
		}
		it.dead = true
		r.res.Count("generator-closed-mid-iteration", 1)
		r.finish(li, got, withSize("d", coll), "map-result-mismatch", ctx)

	case mopForEach:
		li := r.line(depth, hdr+" forEach(probe)")
		rkind := 0
		if coll.isSet {
			rkind = 3
		}
		fr := r.push(frForEach, cl.id, depth, newMsCursor(coll), rkind, "forEach")
		got, err := r.call("op_forEach", cv, r.iv(fr.tok), r.rt.ToValue(coll.isSet))
		r.pop()
		r.endIteration(li, fr, got, err, c, depth, ctx, "fault.callback-throw", unexpected)

	case mopGoForOf:
		li := r.line(depth, hdr+" runtime.ForOf(m, step)")
		rkind := msRkind(coll.isSet, 3)
		fr := r.push(frGoForOf, cl.id, depth, newMsCursor(coll), rkind, "goForOf")
		stopped := false
		var ex *goja.Exception
		func() {
			ex = r.rt.Try(func() {
				r.rt.ForOf(r.colObjs[c], func(v goja.Value) bool {
					s, err := r.call("ren", r.iv(rkind), v)
					if err != nil {
						panic(err)
					}
					r.visit(fr, s, true)
					if r.failed {
						return false
					}
					if r.yieldPoint(fr) {
						panic(r.rt.ToValue(fmt.Sprintf("injected-%d", fr.tok)))
					}
					if r.failed {
						return false
					}
					if r.S.Draw(8) == 7 {
						stopped = true
						r.res.Count("go-ForOf-stopped-early", 1)
						return false
					}
					return true
				})
			})
		}()
		r.pop()
		var err error
		if ex != nil {
			err = ex
		}
		if stopped && err == nil {
			r.hist[li].got, r.hist[li].exp, r.hist[li].open = "stopped by step function", "stopped by step function", false
			r.sizeProbe(c, depth)
			return
		}
		got := ""
		if err == nil {
			got = withSize("ok", r.cols[c]) // ForOf returns nothing; the size is checked by the probe below
		}
		r.endIteration(li, fr, got, err, c, depth, ctx, "fault.goforof-throw", unexpected)
		if !r.failed && err == nil {
			r.sizeProbe(c, depth)
		}

	case mopRebuild:
		// The collection in the slot is re-created through its constructor from an iterable: AddEntriesFromIterable /
		// the Set constructor call the adder once per element, i.e. Map.prototype.set / Set.prototype.add semantics
		// (-0 becomes +0, an equal key keeps its first position) whichever shortcut the engine takes. Iterators opened on
		// the old collection stay on the old collection.
		mode, form, adder, pairObj := st.sel%4, (st.sel/4)%6, (st.sel/24)%3, (st.sel/72)%2
		src := -1
		switch mode {
		case 2:
			src = c
		case 3:
			src = c
			if o := 1 - c; len(r.cols) == 2 && !r.cols[o].isSym && (coll.isSet || !r.cols[o].isSet) {
				src = o
			}
		}
		nExtra := 1 + (st.sel+st.key)%5
		if src >= 0 {
			nExtra = (st.sel + st.key) % 3
			if form == 5 {
				form = 1
			}
		}
		type elem struct{ class, uni, val int }
		var elems []elem
		if src >= 0 {
			sc := r.cols[src]
			for _, idx := range sc.liveList() {
				e := sc.entries[idx]
				elems = append(elems, elem{e.class, e.uni, e.val})
			}
			if src != c {
				r.res.Count("population-from-other-collection", 1)
			} else {
				r.res.Count("population-structured-copy-of-itself", 1)
			}
		}
		var extraArgs []goja.Value
		var desc []string
		stride := 1 + (st.sel/7)%5
		sawNegZero, sawDup := false, false
		for i := 0; i < nExtra; i++ {
			eu := r.pool[(st.key+i*stride)%msPoolSize]
			val := 0
			if !coll.isSet {
				r.writes++
				val = 1000 + r.writes
			}
			for _, e := range elems {
				if e.class == u.classOf[eu] {
					sawDup = true
				}
			}
			elems = append(elems, elem{u.classOf[eu], eu, val})
			extraArgs = append(extraArgs, r.iv(eu), r.iv(val))
			if msNegZeroExprs[u.exprs[eu]] {
				sawNegZero = true
			}
			if coll.isSet {
				desc = append(desc, u.keyName(eu))
			} else {
				desc = append(desc, fmt.Sprintf("[%s, %d]", u.keyName(eu), val))
			}
		}
		nc := newMsColl(coll.isSet, len(u.defs))
		nc.touched = coll.touched
		for _, e := range elems {
			nc.set(e.class, e.uni, e.val, cl.id)
		}
		formName := [...]string{"array", "collection / its iterator", "generator", "instrumented iterator", "array iterator object", "Go: rt.New(ctor, rt.NewArray(...))"}[form]
		adderName := [...]string{"unmodified adder", "patched prototype adder", "subclass with own adder"}[adder]
		if form == 5 {
			adderName = "unmodified adder"
		}
		srcName := ""
		if src >= 0 {
			srcName = fmt.Sprintf("...col%d, ", src)
		}
		li := r.line(depth, fmt.Sprintf("%s COLS[%d] = new %s(%s%s)   [%s; %s; pairs as %s]", hdr, c, ct, srcName, strings.Join(desc, ", "), formName, adderName, [...]string{"arrays", "array-like objects / via entries()/values()"}[pairObj]))
		r.res.Count("population-through-constructor", 1)
		live := false
		for _, ci := range cursors {
			if !ci.done {
				live = true
			}
		}
		var got string
		var err error
		fr := r.push(frBuild, cl.id, depth, newMsCursor(nc), 0, "constructor-iterable")
		if form == 5 {
			var items []interface{}
			for i := 0; i+1 < len(extraArgs); i += 2 {
				k := r.keysObj.Get(fmt.Sprint(extraArgs[i].ToInteger()))
				if coll.isSet {
					items = append(items, k)
				} else {
					items = append(items, r.rt.NewArray(k, extraArgs[i+1]))
				}
			}
			name := "Map"
			if coll.isSet {
				name = "Set"
			}
			var obj *goja.Object
			if obj, err = r.rt.New(r.rt.Get(name), r.rt.NewArray(items...)); err == nil {
				got, err = r.call("op_install", cv, r.rt.ToValue(coll.isSet), obj)
			}
		} else {
			args := append([]goja.Value{cv, r.rt.ToValue(coll.isSet), r.iv(src), r.iv(form), r.iv(adder), r.iv(pairObj), r.iv(fr.tok)}, extraArgs...)
			got, err = r.call("op_rebuild", args...)
		}
		r.pop()
		if r.failed && r.hist[li].open {
			r.hist[li].got, r.hist[li].open = "(abandoned)", false
			return
		}
		if err != nil {
			if !fr.faulted {
				unexpected(li, err)
				return
			}
			// the iterable threw: no collection was created, the slot keeps the old one
			r.res.Count("fault.iterable-throw", 1)
			r.hist[li].got, r.hist[li].exp, r.hist[li].open = errText(err), "throw (injected)", false
			r.sizeProbe(c, depth)
			return
		}
		switch {
		case adder == 1 && form != 5:
			r.res.Count("population-patched-adder", 1)
		case adder == 2 && form != 5:
			r.res.Count("population-subclass-adder", 1)
		case form == 0 || form == 5:
			r.res.Count("population-fast-path-array-unmodified-adder", 1)
		default:
			r.res.Count("population-generic-iterator-unmodified-adder", 1)
		}
		if sawNegZero {
			r.res.Count("population-with-negative-zero-element", 1)
		}
		if sawDup {
			r.res.Count("population-with-equal-keys-in-iterable", 1)
		}
		if live {
			r.res.Count("population-while-live-iterator-on-old-collection", 1)
		}
		r.cols[c] = nc
		v, gerr := r.fn["getCol"](goja.Undefined(), cv)
		if gerr != nil {
			panic("mapsim: getCol failed: " + gerr.Error())
		}
		r.colObjs[c] = v.(*goja.Object)
		cnt := "-1"
		if form == 3 {
			cnt = "-"
		} else if adder != 0 && form != 5 {
			cnt = fmt.Sprint(len(elems))
		}
		rk := 0
		if nc.isSet {
			rk = 1
		}
		r.finish(li, got, withSize(fmt.Sprintf("%s/%d adder-calls:%s", r.renderLive(nc, rk), nc.live, cnt), nc), "map-result-mismatch", "construct "+ct)

	case mopSpread:
		which := st.sel % 4
		rkind := msRkind(coll.isSet, []int{3, 1, 2, 0}[which])
		li := r.line(depth, fmt.Sprintf("%s %s", hdr, []string{"[...m]", "[...m.keys()]", "[...m.values()]", "Array.from(m.entries())"}[which]))
		got, err := r.call("op_spread", cv, r.iv(which), r.iv(rkind))
		if err != nil {
			unexpected(li, err)
			return
		}
		r.finish(li, got, withSize(r.renderLive(coll, rkind), coll), "iterator-visit-mismatch", ctx)

	case mopCopy:
		which := st.sel % 2
		li := r.line(depth, fmt.Sprintf("%s new %s(%s)", hdr, ct, []string{"m", "m.values()/m.entries()"}[which]))
		got, err := r.call("op_copy", cv, r.rt.ToValue(coll.isSet), r.iv(which))
		if err != nil {
			unexpected(li, err)
			return
		}
		rkind := 0
		if coll.isSet {
			rkind = 1
		}
		r.finish(li, got, withSize(fmt.Sprintf("%s/%d", r.renderLive(coll, rkind), coll.live), coll), "iterator-visit-mismatch", ctx)

	case mopExport:
		li := r.line(depth, hdr+" m.Export()")
		var sb, eb strings.Builder
		x := r.colObjs[c].Export()
		switch a := x.(type) {
		case [][2]interface{}:
			sb.WriteByte('[')
			for i, kvp := range a {
				if i > 0 {
					sb.WriteByte(',')
				}
				sb.WriteString(msExportRepr(kvp[0]) + "=" + msExportRepr(kvp[1]))
			}
			sb.WriteByte(']')
			if coll.isSet {
				sb.WriteString(" (a Set exported as [][2]interface{})")
			}
		case []interface{}:
			sb.WriteByte('[')
			for i, k := range a {
				if i > 0 {
					sb.WriteByte(',')
				}
				sb.WriteString(msExportRepr(k))
			}
			sb.WriteByte(']')
			if !coll.isSet {
				sb.WriteString(" (a Map exported as []interface{})")
			}
		default:
			fmt.Fprintf(&sb, "unexpected export type %T", x)
		}
		eb.WriteByte('[')
		for i, idx := range coll.liveList() {
			if i > 0 {
				eb.WriteByte(',')
			}
			e := coll.entries[idx]
			eb.WriteString(u.defs[e.class].export)
			if !coll.isSet {
				eb.WriteString("=" + msNum(float64(e.val)))
			}
		}
		eb.WriteByte(']')
		// Export has no size of its own: append the reference size to both so that the line format is uniform
		r.finish(li, withSize(sb.String(), coll), withSize(eb.String(), coll), "export-mismatch", ctx)
		if !r.failed {
			r.sizeProbe(c, depth)
		}
	}
}

var symOpNames = [...]string{mopSet: "define", mopGet: "get", mopHas: "has", mopDelete: "delete", mopSize: "count-symbols", mopClear: "delete-all-symbols",
	mopOpen: "getOwnPropertySymbols", mopAdvance: "", mopForEach: "for-in/keys/JSON", mopGenOpen: "Reflect.ownKeys", mopSpread: "{...o}", mopCopy: "Object.assign",
	mopExport: "go-Export/Keys", mopGoForOf: "go-Symbols", mopGenReturn: ""}

var symHowNames = [...]string{symAssign: "o[k] = v", symDefine: "defineProperty{enumerable}", symDefineNoEnum: "defineProperty{non-enumerable}",
	symDefineNoConf: "defineProperty{non-configurable}", symReflectSet: "Reflect.set", symGoSet: "(*Object).SetSymbol", symGoDefineNoEnum: "(*Object).DefineDataPropertySymbol{non-enumerable}"}

var symHowTable = [16]int{symAssign, symAssign, symAssign, symAssign, symAssign, symAssign, symDefine, symDefine, symDefineNoEnum, symDefineNoEnum,
	symReflectSet, symGoSet, symGoSet, symGoDefineNoEnum, symDefine, symDefineNoConf}

// renderSyms: the live (optionally only the enumerable) symbols of the reference table in creation order.
func (r *msRun) renderSyms(c *msColl, onlyEnum bool) string {
	var sb strings.Builder
	sb.WriteByte('[')
	first := true
	for _, idx := range c.liveList() {
		e := c.entries[idx]
		if onlyEnum && !e.enum {
			continue
		}
		if !first {
			sb.WriteByte(',')
		}
		first = false
		fmt.Fprintf(&sb, "S%d=%d", e.class, e.val)
	}
	sb.WriteByte(']')
	return sb.String()
}

// execSym performs a step on the symbol-keyed properties of an ordinary object.
func (r *msRun) execSym(cl *msClient, st msStep, depth int) {
	c := st.col
	coll := r.cols[c]
	obj := r.colObjs[c]
	nsym := len(msSymExprs)
	key := r.spool[st.key]
	op := st.op
	switch op {
	case mopAdvance:
		op = mopOpen
		if st.sel&1 == 1 {
			op = mopGenOpen
		}
	case mopGenReturn, mopRebuild:
		op = mopSize
	}
	if key < nsym {
		switch {
		case op == mopDelete && st.sel%3 != 0 && coll.live > 0:
			ll := coll.liveList()
			key = coll.entries[ll[(st.sel/3)%len(ll)]].class
		case op == mopSet && st.sel%4 == 1:
			var dead []int
			for _, e := range coll.entries {
				if !e.live && coll.pos[e.class] < 0 {
					dead = append(dead, e.class)
				}
			}
			if len(dead) > 0 {
				key = dead[(st.sel/4)%len(dead)]
			}
		}
	}
	isStr := key >= nsym
	var sk *msStrKey
	if isStr {
		sk = &coll.strs[key-nsym]
		r.res.Count("symtab-string-key-step", 1)
	}
	if depth > 0 {
		r.res.Count("symtab-step-nested-inside-iteration", 1)
		if r.frames[len(r.frames)-1].kind == frForEach {
			r.res.Count("symtab-step-nested-inside-map-forEach", 1)
		}
	}
	anyTomb, anyReadd := false, false
	for _, e := range coll.entries {
		if !e.live {
			anyTomb = true
			if coll.pos[e.class] >= 0 {
				anyReadd = true
			}
		}
	}
	hdr := fmt.Sprintf("#%d client%d %s col%d:SymTab", r.seq, cl.id, symOpNames[op], c)
	fmt.Fprintf(&r.sig, "%d%c$", cl.id, mopLetters[op])
	cv, kv := r.iv(c), r.iv(key)
	ctx := "symtab " + symOpNames[op]
	unexpected := func(li int, err error) {
		r.hist[li].got, r.hist[li].open, r.hist[li].bad = errText(err), false, true
		r.fail("unexpected-exception", ctx, fmt.Sprintf("%s: %s", r.hist[li].text, core.Trunc(errText(err), 300)))
	}
	// goSide runs a Go API call on the object and appends the size as the JS helpers do.
	goSide := func(li int, f func() string) (string, bool) {
		var out string
		if ex := r.rt.Try(func() { out = f() }); ex != nil {
			unexpected(li, ex)
			return "", false
		}
		sz, err := r.call("op_size", cv)
		if err != nil {
			unexpected(li, err)
			return "", false
		}
		_, n := splitSize(sz)
		r.res.Count("symtab-go-api-step", 1)
		return out + "#" + n, true
	}
	snapshotCounters := func() {
		if anyTomb {
			r.res.Count("symtab-snapshot-after-delete", 1)
		}
		if anyReadd {
			r.res.Count("symtab-snapshot-after-delete-then-readd", 1)
		}
	}

	switch op {
	case mopSet:
		r.writes++
		val := 1000 + r.writes
		how := symHowTable[st.sel%16]
		if isStr {
			switch how {
			case symReflectSet, symGoSet:
				how = symAssign
			case symDefineNoConf:
				how = symDefine
			case symGoDefineNoEnum:
				how = symDefineNoEnum
			}
		} else if p := coll.pos[key]; p >= 0 && !coll.entries[p].conf && how != symAssign && how != symReflectSet && how != symGoSet {
			how = symAssign // redefining a non-configurable property is only done in ways that are permitted
		}
		li := r.line(depth, fmt.Sprintf("%s %s   [%s, v=%d]", hdr, msPKeyName(key), symHowNames[how], val))
		var got string
		switch how {
		case symGoSet, symGoDefineNoEnum:
			var ok bool
			got, ok = goSide(li, func() string {
				var err error
				if how == symGoSet {
					err = obj.SetSymbol(r.psyms[key], val)
				} else {
					err = obj.DefineDataPropertySymbol(r.psyms[key], r.iv(val), goja.FLAG_TRUE, goja.FLAG_TRUE, goja.FLAG_FALSE)
				}
				if err != nil {
					return errText(err)
				}
				return "ok"
			})
			if !ok {
				return
			}
		default:
			var err error
			if got, err = r.call("sy_set", cv, kv, r.iv(val), r.iv(how)); err != nil {
				unexpected(li, err)
				return
			}
		}
		if isStr {
			if !sk.live {
				sk.live, sk.enum = true, true
			}
			sk.val = val
			switch how {
			case symDefine:
				sk.enum = true
			case symDefineNoEnum:
				sk.enum = false
			}
		} else {
			present, readd := coll.symDefineProp(key, val, cl.id, how)
			if readd {
				r.res.Count("symtab-delete-then-readd", 1)
			}
			if present {
				r.res.Count("symtab-redefine-in-place", 1)
			}
			if key >= 7 && key <= 10 {
				r.res.Count("symtab-wellknown-symbol-defined", 1)
			}
			if key >= 4 && key <= 6 {
				r.res.Count("symtab-registered-symbol-defined", 1)
			}
			if how == symDefineNoConf {
				r.res.Count("symtab-nonconfigurable-defined", 1)
			}
		}
		r.finish(li, got, withSize("ok", coll), "map-result-mismatch", ctx)

	case mopGet:
		li := r.line(depth, fmt.Sprintf("%s o[%s]", hdr, msPKeyName(key)))
		got, err := r.call("sy_get", cv, kv)
		if err != nil {
			unexpected(li, err)
			return
		}
		exp := "u"
		if isStr {
			if sk.live {
				exp = fmt.Sprint(sk.val)
			}
		} else if v, ok := coll.get(key); ok {
			exp = fmt.Sprint(v)
		}
		r.finish(li, got, withSize(exp, coll), "map-result-mismatch", ctx)

	case mopHas:
		li := r.line(depth, fmt.Sprintf("%s %s in o / hasOwnProperty / Reflect.has / propertyIsEnumerable / descriptor", hdr, msPKeyName(key)))
		got, err := r.call("sy_has", cv, kv)
		if err != nil {
			unexpected(li, err)
			return
		}
		exp := "fff-none"
		flags := func(enum, conf bool, val int) string {
			e1, e2, cf := "-", "-", "-"
			if enum {
				e1, e2 = "e", "E"
			}
			if conf {
				cf = "C"
			}
			return fmt.Sprintf("ttt%s%s%sW:%d", e1, e2, cf, val)
		}
		if isStr {
			if sk.live {
				exp = flags(sk.enum, true, sk.val)
			}
		} else if p := coll.pos[key]; p >= 0 {
			exp = flags(coll.entries[p].enum, coll.entries[p].conf, coll.entries[p].val)
		}
		r.finish(li, got, withSize(exp, coll), "map-result-mismatch", ctx)

	case mopDelete:
		how := st.sel % 5
		if isStr && how == 4 {
			how = 0
		}
		li := r.line(depth, fmt.Sprintf("%s %s   [%s]", hdr, msPKeyName(key), [...]string{"delete o[k]", "delete o[k]", "delete o[k]", "Reflect.deleteProperty", "(*Object).DeleteSymbol"}[how]))
		var got string
		if how == 4 {
			var ok bool
			got, ok = goSide(li, func() string { return fmt.Sprint(obj.DeleteSymbol(r.psyms[key]) == nil) })
			if !ok {
				return
			}
		} else {
			var err error
			if got, err = r.call("sy_delete", cv, kv, r.iv(how/3)); err != nil {
				unexpected(li, err)
				return
			}
		}
		ok := true
		if isStr {
			sk.live = false
		} else {
			var hit bool
			ok, hit = coll.symDelete(key, cl.id)
			if hit {
				r.res.Count("symtab-delete-hit", 1)
			}
			if !ok {
				r.res.Count("symtab-delete-nonconfigurable-refused", 1)
			}
		}
		r.finish(li, got, withSize(fmt.Sprint(ok), coll), "map-result-mismatch", ctx)

	case mopSize:
		li := r.line(depth, hdr)
		got, err := r.call("op_size", cv)
		if err != nil {
			unexpected(li, err)
			return
		}
		r.finish(li, got, withSize("ok", coll), "size-mismatch", ctx)

	case mopClear:
		li := r.line(depth, hdr+" getOwnPropertySymbols(o).forEach(s => delete o[s])")
		got, err := r.call("sy_clear", cv)
		if err != nil {
			unexpected(li, err)
			return
		}
		n := 0
		for _, idx := range coll.liveList() {
			if coll.entries[idx].conf {
				coll.del(coll.entries[idx].class, cl.id)
				n++
			}
		}
		if n > 1 {
			r.res.Count("symtab-mass-delete", 1)
		}
		r.finish(li, got, withSize(fmt.Sprintf("deleted:%d", n), coll), "map-result-mismatch", ctx)

	case mopOpen, mopGenOpen:
		which := 0
		if op == mopGenOpen {
			which = 1
		}
		li := r.line(depth, hdr)
		got, err := r.call("sy_snap", cv, r.iv(which))
		if err != nil {
			unexpected(li, err)
			return
		}
		snapshotCounters()
		exp := r.renderSyms(coll, false)
		if which == 1 {
			all, _ := coll.strCounts()
			exp += fmt.Sprintf("/%d", all)
			if all > 0 && coll.live > 0 {
				r.res.Count("symtab-ownKeys-with-string-and-symbol-keys", 1)
			}
		}
		r.finish(li, got, withSize(exp, coll), "iterator-visit-mismatch", ctx)

	case mopSpread, mopCopy:
		which := 1
		if op == mopCopy {
			which = (st.sel % 2) * 2
		}
		li := r.line(depth, fmt.Sprintf("%s %s", hdr, [...]string{"Object.assign({}, o)", "{...o}", "Object.assign(Object.create(null), o)"}[which]))
		got, err := r.call("sy_copy", cv, r.iv(which))
		if err != nil {
			unexpected(li, err)
			return
		}
		snapshotCounters()
		for _, idx := range coll.liveList() {
			if !coll.entries[idx].enum {
				r.res.Count("symtab-copy-with-nonenumerable", 1)
				break
			}
		}
		_, en := coll.strCounts()
		r.finish(li, got, withSize(fmt.Sprintf("%s/%d", r.renderSyms(coll, true), en), coll), "iterator-visit-mismatch", ctx)

	case mopForEach:
		li := r.line(depth, hdr)
		got, err := r.call("sy_forin", cv)
		if err != nil {
			unexpected(li, err)
			return
		}
		all, en := coll.strCounts()
		if coll.live > 0 {
			r.res.Count("symtab-string-enumeration-with-live-symbols", 1)
		}
		r.finish(li, got, withSize(fmt.Sprintf("forin:%d keys:%d entries:%d json:%d names:%d", en, en, en, en, all), coll), "map-result-mismatch", ctx)

	case mopExport:
		li := r.line(depth, hdr)
		got, ok := goSide(li, func() string {
			m, isMap := obj.Export().(map[string]interface{})
			if !isMap {
				return fmt.Sprintf("unexpected export type %T", obj.Export())
			}
			return fmt.Sprintf("export:%d keys:%d names:%d", len(m), len(obj.Keys()), len(obj.GetOwnPropertyNames()))
		})
		if !ok {
			return
		}
		all, en := coll.strCounts()
		r.finish(li, got, withSize(fmt.Sprintf("export:%d keys:%d names:%d", en, en, all), coll), "export-mismatch", ctx)

	case mopGoForOf:
		li := r.line(depth, hdr)
		got, ok := goSide(li, func() string {
			var sb strings.Builder
			sb.WriteByte('[')
			for i, sym := range obj.Symbols() {
				if i > 0 {
					sb.WriteByte(',')
				}
				k := -1
				for j, p := range r.psyms {
					if p == sym {
						k = j
					}
				}
				v := obj.GetSymbol(sym)
				if v == nil {
					fmt.Fprintf(&sb, "S%d=nil", k)
				} else {
					fmt.Fprintf(&sb, "S%d=%s", k, v.String())
				}
			}
			sb.WriteByte(']')
			return sb.String()
		})
		if !ok {
			return
		}
		snapshotCounters()
		r.finish(li, got, withSize(r.renderSyms(coll, true), coll), "export-mismatch", ctx)
	}
}

// endIteration closes a forEach / ForOf step.
func (r *msRun) endIteration(li int, fr *msFrame, got string, err error, c, depth int, ctx, faultCounter string, unexpected func(int, error)) {
	coll := r.cols[c]
	if r.failed && r.hist[li].open {
		r.hist[li].got, r.hist[li].open = "(abandoned)", false
		return
	}
	if err != nil {
		if !fr.faulted {
			unexpected(li, err)
			return
		}
		r.res.Count(faultCounter, 1)
		r.hist[li].got, r.hist[li].exp, r.hist[li].open = errText(err), "throw (injected)", false
		r.sizeProbe(c, depth)
		return
	}
	exp := "ok"
	if idx, ok := r.advance(fr.cur, fr.client, fr.kind); ok {
		exp = "ok   <the iteration ended, the reference iteration still has " + r.renderEntry(fr.cur.coll, idx, fr.rkind) + ">"
	}
	r.finish(li, got, withSize(exp, coll), "iterator-visit-mismatch", ctx)
}

// sizeProbe is an oracle probe (not a client step): size after a step whose own answer carries none.
func (r *msRun) sizeProbe(c, depth int) {
	if r.failed {
		return
	}
	coll := r.cols[c]
	li := r.line(depth+1, fmt.Sprintf("(probe) col%d.size", c))
	got, err := r.call("op_size", r.iv(c))
	if err != nil {
		r.hist[li].got, r.hist[li].open, r.hist[li].bad = errText(err), false, true
		r.fail("unexpected-exception", "size "+colType(coll), errText(err))
		return
	}
	r.finish(li, got, withSize("ok", coll), "size-mismatch", "size "+colType(coll))
}

func (r *msRun) countLive() {
	n := 0
	for _, it := range r.iters {
		if it != nil && !it.exhausted() {
			n++
		}
	}
	if n == msMaxIters {
		r.res.Count("three-live-iterators", 1)
	}
}

// msRkind: how the helper renders what an iterator of the given kind yields (0 [k,v] of a Map, 1 key, 2 Map value,
// 3 [k,k] of a Set). kind: 0 entries, 1 keys, 2 values, 3 Symbol.iterator.
func msRkind(isSet bool, kind int) int {
	if isSet {
		if kind == 0 {
			return 3
		}
		return 1
	}
	switch kind {
	case 1:
		return 1
	case 2:
		return 2
	}
	return 0
}

// ---- one run ---------------------------------------------------------------------------------------------------

func (e *mapsim) Run(t *core.Tape, want bool) *core.Result {
	msInit()
	res := &core.Result{}
	W, S := &t.W, &t.S
	u := msUni
	r := &msRun{res: res, W: W, S: S, u: u}

	// ---- workload ------------------------------------------------------------------------------------------------
	nclients := 2 + W.Draw(3)
	ncols := 1 + W.Draw(2)
	// collection kinds: 0 Map, 1 Set, 2 symbol-property table of an ordinary object. A run with a symbol table always
	// has a Map or Set too, so that symbol-table steps also happen nested inside forEach callbacks and between the
	// resumptions of live iterators.
	var kinds []int
	for i := 0; i < 2; i++ {
		kinds = append(kinds, W.Draw(3))
	}
	kinds = kinds[:ncols]
	if ncols == 1 && kinds[0] == 2 {
		ncols, kinds = 2, []int{2, 0}
	} else if ncols == 2 && kinds[0] == 2 && kinds[1] == 2 {
		kinds[0] = 0
	}
	// symbol-table key pool: 8-12 distinct symbols, the remaining slots string / index keys of the same object
	{
		nsym := 8 + W.Draw(5)
		perm := make([]int, len(msSymExprs))
		for i := range perm {
			perm[i] = i
		}
		for i := 0; i < nsym; i++ {
			j := i + W.Draw(len(perm)-i)
			perm[i], perm[j] = perm[j], perm[i]
			r.spool[i] = perm[i]
		}
		for i := nsym; i < msPoolSize; i++ {
			r.spool[i] = len(msSymExprs) + W.Draw(len(msStrExprs))
		}
	}
	// key pool: a handful of classes, each slot one representation of one of them
	ncls := 4 + W.Draw(5)
	var chosen []int
	var have uint64
	for len(chosen) < ncls {
		ci := u.drawClass(W.Draw(u.totalW))
		for have&(1<<uint(ci)) != 0 {
			ci = (ci + 1) % len(u.defs)
		}
		have |= 1 << uint(ci)
		chosen = append(chosen, ci)
		if b := u.buddyOf[ci]; b >= 0 && len(chosen) < ncls && have&(1<<uint(b)) == 0 {
			have |= 1 << uint(b)
			chosen = append(chosen, b)
		}
	}
	for j := 0; j < msPoolSize; j++ {
		ci := chosen[W.Draw(len(chosen))]
		r.pool[j] = u.reps[ci][W.Draw(len(u.reps[ci]))]
	}
	totalW := 0
	for _, w := range mopWeights {
		totalW += w
	}
	budget := msMaxSteps
	for i := 0; i < nclients; i++ {
		cl := &msClient{id: i}
		n := 5 + W.Draw(14)
		if n > budget {
			n = budget
		}
		budget -= n
		for j := 0; j < n; j++ {
			d := W.Draw(totalW)
			op := 0
			for acc := 0; op < nMops; op++ {
				if acc += mopWeights[op]; d < acc {
					break
				}
			}
			st := msStep{op: op, col: W.Draw(ncols), key: W.Draw(msPoolSize), sel: W.Draw(240)}
			if j < 2 && d%4 != 3 {
				st.op = mopSet // clients start by filling
				if d%16 == 1 {
					st.op = mopRebuild // ... some through the constructor
				}
			}
			cl.steps = append(cl.steps, st)
		}
		r.clients = append(r.clients, cl)
	}

	// ---- system --------------------------------------------------------------------------------------------------
	rt := goja.New()
	r.rt = rt
	msSetGlobals(rt)
	rt.Set("Y", r.nativeY)
	rt.Set("YI", r.nativeYI)
	if _, err := rt.RunProgram(msProg); err != nil {
		panic("mapsim: setup script failed: " + err.Error())
	}
	r.fn = make(map[string]goja.Callable, len(msFnNames))
	for _, n := range msFnNames {
		f, ok := goja.AssertFunction(rt.Get(n))
		if !ok {
			panic("mapsim: helper " + n + " missing")
		}
		r.fn[n] = f
	}
	r.keysObj = rt.Get("KEYS").(*goja.Object)
	var scan []goja.Value
	for _, ci := range chosen {
		scan = append(scan, r.iv(u.repOf[ci]))
	}
	if _, err := r.fn["setScan"](goja.Undefined(), scan...); err != nil {
		panic("mapsim: setScan failed: " + err.Error())
	}
	for i := 0; i < ncols; i++ {
		v, err := r.fn["mkCol"](goja.Undefined(), r.iv(i), r.iv(kinds[i]))
		if err != nil {
			panic("mapsim: mkCol failed: " + err.Error())
		}
		r.colObjs = append(r.colObjs, v.(*goja.Object))
		if kinds[i] == 2 {
			r.cols = append(r.cols, newMsSymtab())
			if r.psyms == nil {
				pk := rt.Get("PKEYS").(*goja.Object)
				for k := range msSymExprs {
					r.psyms = append(r.psyms, pk.Get(fmt.Sprint(k)).(*goja.Symbol))
				}
			}
		} else {
			r.cols = append(r.cols, newMsColl(kinds[i] == 1, len(u.defs)))
		}
	}

	// ---- schedule ------------------------------------------------------------------------------------------------
	r.faulty = S.Chance(1, 3)
	cur := 0
	for !r.failed {
		left := false
		for _, cl := range r.clients {
			if cl.pc < len(cl.steps) {
				left = true
			}
		}
		if !left {
			break
		}
		cur = (cur + S.Draw(nclients)) % nclients
		for r.clients[cur].pc >= len(r.clients[cur].steps) {
			cur = (cur + 1) % nclients
		}
		r.sig.WriteByte(' ')
		r.execStep(r.clients[cur], 0)
	}
	if len(r.frames) != 0 {
		panic("mapsim: iteration frames left on the stack")
	}

	// ---- verdict -------------------------------------------------------------------------------------------------
	shared := false
	for _, c := range r.cols {
		if c.touched&(c.touched-1) != 0 {
			shared = true
		}
	}
	res.NonTrivial = r.nontrivial && shared
	if res.NonTrivial {
		res.Count("nontrivial-runs", 1)
	}
	res.Sig = strings.TrimSpace(r.sig.String())
	dl := make([]string, 0, len(r.hist))
	for _, l := range r.hist {
		dl = append(dl, fmt.Sprintf("%d|%s|%s|%s", l.depth, l.text, l.got, l.exp))
	}
	res.Digest = core.DigestLines(dl)
	if r.failed {
		res.Fail(r.failRule, r.failSig, r.failMsg, r.render(nclients, kinds))
	}
	if want {
		res.Sample = r.render(nclients, kinds)
	}
	return res
}

func (r *msRun) render(nclients int, kinds []int) string {
	u := r.u
	var sb strings.Builder
	fmt.Fprintf(&sb, "// %d clients, collections:", nclients)
	hasSym, hasMap := false, false
	for i, k := range kinds {
		fmt.Fprintf(&sb, " col%d=%s", i, [...]string{"Map", "Set", "SymTab (symbol-keyed properties of an ordinary object)"}[k])
		if k == 2 {
			hasSym = true
		} else {
			hasMap = true
		}
	}
	fmt.Fprintf(&sb, "; callback faults %v\n", r.faulty)
	if hasMap {
		sb.WriteString("// key pool (Kn = canonical index of the key's SameValueZero class):\n")
		for j, uni := range r.pool {
			fmt.Fprintf(&sb, "//   slot%-2d %s\n", j, u.keyName(uni))
		}
	}
	if hasSym {
		sb.WriteString("// property-key pool of the symbol table (Sn = index of the symbol):\n")
		for j, k := range r.spool {
			fmt.Fprintf(&sb, "//   slot%-2d %s\n", j, msPKeyName(k))
		}
	}
	for _, cl := range r.clients {
		fmt.Fprintf(&sb, "// client%d script:", cl.id)
		for _, st := range cl.steps {
			fmt.Fprintf(&sb, " %s(col%d,slot%d,%d)", mopNames[st.op], st.col, st.key, st.sel)
		}
		sb.WriteByte('\n')
	}
	fmt.Fprintf(&sb, "// realised interleaving: %s\n// history (goja's answer <result>#<size>; the reference's answer follows when it differs):\n", strings.TrimSpace(r.sig.String()))
	for _, l := range r.hist {
		sb.WriteString(strings.Repeat("    ", l.depth))
		sb.WriteString(l.text)
		switch {
		case l.open:
			sb.WriteString(" -> (in progress)")
		case l.bad:
			fmt.Fprintf(&sb, " -> %s   <<<< DIVERGES: reference says %s", l.got, l.exp)
		default:
			fmt.Fprintf(&sb, " -> %s", l.got)
		}
		sb.WriteByte('\n')
	}
	return sb.String()
}
