package engines

import (
	"syscall"
	"unsafe"
)

// A baton hands control from one real goroutine to another WITHOUT creating a happens-before edge that the race
// detector can see. Channels, mutexes, atomics and even syscall.Read/Write are annotated for the race detector; a
// scheduler built from them would order every access of task A before every later access of task B and thereby hide
// exactly the unsynchronised sharing it is meant to provoke. Raw syscall.Syscall(SYS_READ/SYS_WRITE) on a pipe carries
// no annotation: the hand-off serialises execution in real time (so the interleaving is the one the tape chose and is
// replayable) while the detector still judges the execution by goja's own synchronisation alone.
//
// All functions touching scheduler state shared between goroutines are //go:norace for the same reason.
type baton struct {
	r, w int
}

func newBaton() *baton {
	var p [2]int
	if err := syscall.Pipe(p[:]); err != nil {
		panic("baton: pipe: " + err.Error())
	}
	return &baton{r: p[0], w: p[1]}
}

//go:norace
func (b *baton) wait() {
	var buf [1]byte
	for {
		n, _, e := syscall.Syscall(syscall.SYS_READ, uintptr(b.r), uintptr(unsafe.Pointer(&buf[0])), 1)
		if e == syscall.EINTR || e == syscall.EAGAIN {
			continue
		}
		if e != 0 || n != 1 {
			panic("baton: read failed")
		}
		return
	}
}

//go:norace
func (b *baton) signal() {
	buf := [1]byte{1}
	for {
		n, _, e := syscall.Syscall(syscall.SYS_WRITE, uintptr(b.w), uintptr(unsafe.Pointer(&buf[0])), 1)
		if e == syscall.EINTR || e == syscall.EAGAIN {
			continue
		}
		if e != 0 || n != 1 {
			panic("baton: write failed")
		}
		return
	}
}

func (b *baton) close() {
	syscall.Close(b.r)
	syscall.Close(b.w)
}

// watchdog is the simulated "other goroutine" of an embedding application that interrupts a running script.
type watchdog struct {
	req, ack *baton
	stop     bool
	action   func() // what to do when released (set before the goroutine starts; reads only pre-published data)

	// instrumented build only (lock acquisitions of goja code are scheduling points): the action may be suspended at its
	// first lock acquisition, the owner goroutine runs on for a while and resumes it later
	gid    uint64
	armed  int // > 0: park at the armed-th synchronisation point (outside any lock) of the action
	held   int // locks of goja code currently held by the action
	parked bool
}

//go:norace
func (w *watchdog) setGID(id uint64) { w.gid = id }

// arm: the next release() returns as soon as the action reaches its n-th synchronisation point outside any lock (if it
// does), leaving it suspended there.
//
//go:norace
func (w *watchdog) arm(n int) { w.armed, w.held = n, 0 }

//go:norace
func (w *watchdog) disarm() { w.armed = 0 }

//go:norace
func (w *watchdog) isParked() bool { return w.parked }

// atSyncPoint is called on the watchdog's own goroutine (from the sync-point hook).
//
//go:norace
func (w *watchdog) atSyncPoint(kind int) {
	switch kind {
	case 1:
		w.held++
		return
	case 2:
		if w.held > 0 {
			w.held--
		}
		return
	}
	// never park while the action holds a lock: the owner goroutine might block on it for real
	if kind != 0 || w.armed <= 0 || w.held > 0 {
		return
	}
	w.armed--
	if w.armed > 0 {
		return
	}
	w.parked = true
	w.ack.signal()
	w.req.wait()
}

// resume lets a suspended action run to its end.
//
//go:norace
func (w *watchdog) resume() {
	if !w.parked {
		return
	}
	w.parked = false
	w.req.signal()
	w.ack.wait()
}

func startWatchdog(action func()) *watchdog {
	w := &watchdog{req: newBaton(), ack: newBaton(), action: action}
	go w.loop()
	return w
}

//go:norace
func (w *watchdog) stopped() bool { return w.stop }

//go:norace
func (w *watchdog) setStop() { w.stop = true }

func (w *watchdog) loop() {
	w.setGID(curGoroutineID())
	for {
		w.req.wait()
		if w.stopped() {
			w.ack.signal()
			return
		}
		w.action()
		w.ack.signal()
	}
}

// release lets the watchdog goroutine perform its action now and returns when it has done so.
func (w *watchdog) release() {
	w.req.signal()
	w.ack.wait()
}

func (w *watchdog) shutdown() {
	w.resume()
	w.armed = 0
	w.setStop()
	w.req.signal()
	w.ack.wait()
	w.req.close()
	w.ack.close()
}
