package engines

import (
	"fmt"
	"math"
	"os"
	"strconv"
	"strings"
)

// ---- key universe ----------------------------------------------------------------------------------------------
//
// The key universe is a fixed list of JavaScript expressions, grouped into SameValueZero equivalence classes. The
// grouping is written down here BY HAND FROM THE SPECIFICATION (ECMA-262 7.2.10 SameValueZero: same type; Numbers
// equal as mathematical values, NaN equal to NaN, +0 equal to -0; Strings equal as code unit sequences; BigInts equal
// as mathematical values; Symbols and Objects by identity) and never derived from what goja answers. Every run draws a
// pool of 12 slots from it.

// Values imported from Go (set as globals before the setup script runs).
const (
	msGoAsciiLong = "imported-ascii-string-0123456789"  // > 16 bytes: an unscanned importedString
	msGoUniLong   = "zażółć-юникод-\U0001F600-imported" // > 16 bytes, BMP + astral
	msGoHello     = "héllo"                             // <= 16 bytes, non-ASCII
)

type msClassDef struct {
	name   string
	weight int
	export string   // canonical rendering of Value.Export() of a key of this class (see msExportRepr)
	reps   []string // JavaScript expressions that all denote this one key
	gated  []string // representations known to expose a goja defect; only with msInt53Keys
	buddy  string   // name of a different class whose goja hash value collides with this one (same bucket chain)
}

// msInt53Keys adds the representations of +-2**53 that come out of integer arithmetic leaving the safe range and of
// literals above 2**53. Before goja commit 454692a ("keep integral Numbers within +-2^53 in integer representation ...")
// these were held as valueFloat(2**53), which hashed differently from valueInt(2**53): `new Set([2**53]).has(2**53+1)`
// was false. They are part of the pool now; VERIF_C18_INT53=0 leaves them out (to check an older tree).
var msInt53Keys = os.Getenv("VERIF_C18_INT53") != "0"

func msNum(f float64) string {
	if f == 0 && math.Signbit(f) {
		return "n:-0"
	}
	return "n:" + strconv.FormatFloat(f, 'g', -1, 64)
}

// jsQuote renders a Go string as an ASCII-only JavaScript string literal (UTF-16 escapes).
func jsQuote(s string) string {
	var sb strings.Builder
	sb.WriteByte('"')
	for _, r := range s {
		switch {
		case r == '"' || r == '\\':
			sb.WriteByte('\\')
			sb.WriteRune(r)
		case r >= 0x20 && r < 0x7f:
			sb.WriteRune(r)
		case r < 0x10000:
			fmt.Fprintf(&sb, "\\u%04x", r)
		default:
			r -= 0x10000
			fmt.Fprintf(&sb, "\\u%04x\\u%04x", 0xd800+(r>>10), 0xdc00+(r&0x3ff))
		}
	}
	sb.WriteByte('"')
	return sb.String()
}

func msClassDefs() []msClassDef {
	half := len(msGoUniLong) / 2
	for half > 0 && msGoUniLong[half]&0xc0 == 0x80 {
		half--
	}
	return []msClassDef{
		{name: "num 1", weight: 4, export: msNum(1), reps: []string{"1", "0.5+0.5", "Math.sqrt(1)", "GO_F1", `Number("1.0")`, "new Float64Array([1])[0]"},
			gated: []string{"(function(){ var x = -0; x++; return x; })()", "(function(){ var x = -0; return ++x; })()"}},
		{name: `str "1"`, weight: 3, export: "s:1", reps: []string{`"1"`, "String(1)", `"" + (0.5+0.5)`, "GO_S1"}},
		{name: "num 0", weight: 4, export: msNum(0), reps: []string{"0", "-0", "0*-1", "0.5-0.5", "GO_NEGZERO", "Math.round(-0.2)"},
			gated: []string{"-(-0)", "-(0*-1)"}},
		{name: "NaN", weight: 4, export: "n:NaN", reps: []string{"NaN", "0/0", "Math.sqrt(-1)", "GO_NAN", `Number("x")`, "Infinity-Infinity"}},
		{name: `str "abc"`, weight: 3, export: "s:abc", reps: []string{`"abc"`, `"a"+"bc"`, `["a","b","c"].join("")`, "GO_ABC", `"xabc".substring(1)`}},
		{name: "str non-ASCII short", weight: 3, export: "s:" + msGoHello, reps: []string{jsQuote(msGoHello), `"h"+String.fromCharCode(233)+"llo"`, "GO_HELLO", jsQuote(msGoHello+" wörld") + ".slice(0,5)"}},
		{name: "str ASCII long", weight: 3, export: "s:" + msGoAsciiLong, reps: []string{jsQuote(msGoAsciiLong), "GO_ASCII_LONG", jsQuote(msGoAsciiLong[:15]) + "+" + jsQuote(msGoAsciiLong[15:]), "GO_ASCII_LONG.substring(0,20)+GO_ASCII_LONG.substring(20)"}},
		{name: "str non-ASCII long", weight: 3, export: "s:" + msGoUniLong, reps: []string{jsQuote(msGoUniLong), "GO_UNI_LONG", jsQuote(msGoUniLong[:half]) + "+" + jsQuote(msGoUniLong[half:]), "GO_UNI_LONG.slice(0,3)+GO_UNI_LONG.slice(3)"}},
		{name: "symbol A", weight: 3, export: "s:sym-A", reps: []string{"SYM_A", "Object(SYM_A).valueOf()"}},
		{name: "symbol registered", weight: 1, export: "s:sym-reg", reps: []string{`Symbol.for("sym-reg")`, `Symbol.for("sym-"+"reg")`}},
		{name: "object A", weight: 3, export: "o:1", reps: []string{"OBJ_A"}},
		{name: "object B", weight: 3, export: "o:2", reps: []string{"OBJ_B"}},
		{name: "bigint 10n", weight: 3, export: "big:10", reps: []string{"10n", "5n+5n", "BigInt(10)", `BigInt("10")`, "20n/2n"}},
		{name: "num 10", weight: 2, export: msNum(10), reps: []string{"10", "5+5", "Number(10n)", "2.5*4", `parseInt("10")`}},
		{name: "num 2**53", weight: 3, export: msNum(9007199254740992), reps: []string{"9007199254740992", "2**53", "Math.pow(2,53)", "4503599627370496*2", "9007199254740991+1"},
			gated: []string{"9007199254740992+1", "9007199254740993", "KEYS[0]+9007199254740992"}},
		{name: "undefined", weight: 1, export: "nil", reps: []string{"undefined", "void 0", "[][0]"}},
		{name: "null", weight: 1, export: "nil", reps: []string{"null"}},
		{name: "true", weight: 1, export: "b:true", reps: []string{"true", "!0", "1===1"}},
		{name: "bigint 0n", weight: 1, export: "big:0", reps: []string{"0n", "-0n", "5n-5n"}},
		{name: `str ""`, weight: 1, export: "s:", reps: []string{`""`, `"a".slice(1)`, "String()", "GO_EMPTY"}},
		{name: "num 1.5", weight: 2, export: msNum(1.5), reps: []string{"1.5", "3/2", "GO_F15", "0.75*2"}},
		{name: `str "0"`, weight: 1, export: "s:0", reps: []string{`"0"`, "String(0)", "String(-0)", "GO_S0"}},
		{name: `str "NaN"`, weight: 1, export: "s:NaN", reps: []string{`"NaN"`, "String(NaN)", `"" + (0/0)`}},
		{name: "num 2**63", weight: 2, export: msNum(9223372036854775808), reps: []string{"9223372036854775808", "2**63", "4611686018427387904*2"}},
		{name: "num -1", weight: 1, export: msNum(-1), reps: []string{"-1", "-0.5-0.5", "~0"},
			gated: []string{"(function(){ var x = -0; x--; return x; })()"}},
		{name: "Infinity", weight: 1, export: "n:+Inf", reps: []string{"Infinity", "1/0", "-1/-0", "Number.POSITIVE_INFINITY"}},
		{name: "bigint 2n**64n", weight: 1, export: "big:18446744073709551616", reps: []string{"2n**64n", "18446744073709551616n", `BigInt("0x10000000000000000")`}},
		{name: "num -(2**53)", weight: 2, export: msNum(-9007199254740992), reps: []string{"-9007199254740992", "-(2**53)", "-9007199254740991-1"},
			gated: []string{"-9007199254740992-1", "-9007199254740993"}},
		// valueInt(n).hash() == n and valueFloat(f).hash() == Float64bits(f): the int 5 and the denormal whose bit
		// pattern is 5 share a hash bucket in goja while being different keys.
		{name: "num 5", weight: 2, export: msNum(5), reps: []string{"5", "2.5*2", `Number("5")`}, buddy: "num denormal(bits=5)"},
		{name: "num denormal(bits=5)", weight: 1, export: msNum(math.Float64frombits(5)), reps: []string{"Number.MIN_VALUE*5", "2.5e-323", "5e-324*5"}, buddy: "num 5"},
		{name: `str "10"`, weight: 1, export: "s:10", reps: []string{`"10"`, "String(10n)", "String(10)"}},
		{name: "false", weight: 1, export: "b:false", reps: []string{"false", "!1"}},
		{name: "array A", weight: 1, export: "a:0", reps: []string{"ARR_A"}},
	}
}

type msUniverse struct {
	defs    []msClassDef
	exprs   []string // universe index -> JS expression
	classOf []int    // universe index -> class
	repOf   []int    // class -> first (canonical) universe index
	reps    [][]int  // class -> universe indices
	cumW    []int    // cumulative class weights
	totalW  int
	buddyOf []int // class -> class sharing its hash bucket, or -1
	keysSrc string
}

// msNegZeroExprs: the representations of zero that are -0 (the helper reports a -0 as index -2 so that a collection
// handing back -0 as a key is noticed; the key table's self-check has to expect that for these).
var msNegZeroExprs = map[string]bool{"-0": true, "0*-1": true, "GO_NEGZERO": true, "Math.round(-0.2)": true}

func buildUniverse() *msUniverse {
	u := &msUniverse{defs: msClassDefs()}
	for ci, d := range u.defs {
		reps := append([]string(nil), d.reps...)
		if msInt53Keys {
			reps = append(reps, d.gated...)
		}
		u.repOf = append(u.repOf, len(u.exprs))
		var idx []int
		for _, e := range reps {
			idx = append(idx, len(u.exprs))
			u.exprs = append(u.exprs, e)
			u.classOf = append(u.classOf, ci)
		}
		u.reps = append(u.reps, idx)
		u.totalW += d.weight
		u.cumW = append(u.cumW, u.totalW)
	}
	for _, d := range u.defs {
		b := -1
		for j, o := range u.defs {
			if d.buddy != "" && o.name == d.buddy {
				b = j
			}
		}
		u.buddyOf = append(u.buddyOf, b)
	}
	if len(u.defs) > 64 {
		panic("mapsim: more than 64 key classes")
	}
	// KEYS is filled element by element so that a gated expression may refer to earlier elements.
	var sb strings.Builder
	sb.WriteString("var KEYS = [];\n")
	for i, e := range u.exprs {
		fmt.Fprintf(&sb, "KEYS[%d] = %s;\n", i, e)
	}
	u.keysSrc = sb.String()
	return u
}

func (u *msUniverse) drawClass(d int) int {
	for ci, c := range u.cumW {
		if d < c {
			return ci
		}
	}
	return 0
}

func (u *msUniverse) keyName(uni int) string {
	return fmt.Sprintf("K%d{%s <- %s}", u.repOf[u.classOf[uni]], u.defs[u.classOf[uni]].name, u.exprs[uni])
}

// ---- reference collection -------------------------------------------------------------------------------------
//
// ECMA-262 24.1 / 24.2: [[MapData]] / [[SetData]] is a List of entries. set/add of an absent key appends; of a present
// key updates the value in place (Map) or does nothing (Set); delete and clear overwrite entries with ~empty~ and never
// remove or reorder list elements; every iterator (and forEach) is an index into the list that skips ~empty~ entries,
// re-reads the list length each time it resumes, and is finished for good once it has run off the end.

type msEntry struct {
	class int
	uni   int // representation used by the write that created the entry
	val   int
	live  bool
	era   int // number of clear() calls before the entry was appended
	// symbol-property table only: attributes of the data property
	enum, conf bool
}

type msMut struct {
	client int
	kind   byte // 'a' append, 'u' update in place, 'd' delete, 'c' clear
}

type msStrKey struct {
	live, enum bool
	val        int
}

type msColl struct {
	isSet   bool
	isSym   bool       // the symbol-keyed own properties of an ordinary object (class = index of the symbol in PKEYS)
	strs    []msStrKey // symbol table only: the string / index keys living on the same object
	entries []msEntry
	pos     []int // class -> index of its live entry, -1 if absent
	live    int
	muts    []msMut
	clears  int
	dels    int
	touched uint32 // clients that performed any step on the collection
}

func newMsColl(isSet bool, nclasses int) *msColl {
	c := &msColl{isSet: isSet, pos: make([]int, nclasses)}
	for i := range c.pos {
		c.pos[i] = -1
	}
	return c
}

// set returns true if the key was present.
func (c *msColl) set(class, uni, val, client int) bool {
	if p := c.pos[class]; p >= 0 {
		if !c.isSet {
			c.entries[p].val = val
			c.muts = append(c.muts, msMut{client, 'u'})
		}
		return true
	}
	c.pos[class] = len(c.entries)
	c.entries = append(c.entries, msEntry{class: class, uni: uni, val: val, live: true, era: c.clears})
	c.live++
	c.muts = append(c.muts, msMut{client, 'a'})
	return false
}

func (c *msColl) get(class int) (int, bool) {
	if p := c.pos[class]; p >= 0 {
		return c.entries[p].val, true
	}
	return 0, false
}

func (c *msColl) del(class, client int) bool {
	p := c.pos[class]
	if p < 0 {
		return false
	}
	c.entries[p].live = false
	c.pos[class] = -1
	c.live--
	c.dels++
	c.muts = append(c.muts, msMut{client, 'd'})
	return true
}

func (c *msColl) clear(client int) {
	for i := range c.entries {
		c.entries[i].live = false
	}
	for i := range c.pos {
		c.pos[i] = -1
	}
	c.live = 0
	c.clears++
	c.muts = append(c.muts, msMut{client, 'c'})
}

// liveList returns the indices of the live entries in list (= insertion) order.
func (c *msColl) liveList() []int {
	var l []int
	for i := range c.entries {
		if c.entries[i].live {
			l = append(l, i)
		}
	}
	return l
}

type msCursor struct {
	coll    *msColl
	index   int
	done    bool
	last    int    // index of the entry returned by the previous next(), -1 before the first
	mutSeen int    // len(coll.muts) when last advanced (or created)
	visited uint64 // classes returned so far
	era0    int    // number of clear() calls of the collection before the cursor was created
}

func newMsCursor(c *msColl) *msCursor {
	return &msCursor{coll: c, last: -1, mutSeen: len(c.muts), era0: c.clears}
}

func (it *msCursor) next() (int, bool) {
	if it.done {
		return -1, false
	}
	for it.index < len(it.coll.entries) {
		i := it.index
		it.index++
		if it.coll.entries[i].live {
			it.last = i
			return i, true
		}
	}
	it.done = true
	return -1, false
}

// ---- symbol-property table ------------------------------------------------------------------------------------
//
// ECMA-262 10.1.11 OrdinaryOwnPropertyKeys lists symbol keys "in ascending chronological order of property creation",
// after all string keys. A property is created when it is defined while absent and ceases to exist when deleted, so the
// table is the same tombstone list as [[MapData]] keyed by symbol identity: redefining a present key changes value or
// attributes in place, delete leaves a tombstone, defining a deleted key appends a new entry.

// Names of the keys of the property-key table PKEYS: symbols first, then string / index keys.
var msSymExprs = []string{`Symbol("a")`, `Symbol("a")`, `Symbol()`, `Symbol("b")`, `Symbol.for("mapsim-reg-1")`, `Symbol.for("mapsim-reg-2")`, `Symbol.for("a")`,
	`Symbol.iterator`, `Symbol.toStringTag`, `Symbol.hasInstance`, `Symbol.unscopables`, `Symbol("\u017c-desc")`, `Symbol("0")`, `Symbol("zz")`}
var msStrExprs = []string{`"alpha"`, `"beta"`, `0`, `7`, `"10"`, `"-1"`}

func msPKeysSrc() string {
	return "var PKEYS = [" + strings.Join(msSymExprs, ", ") + ", " + strings.Join(msStrExprs, ", ") + "], NSYM = " + strconv.Itoa(len(msSymExprs)) + ";\n"
}

func msPKeyName(k int) string {
	if k < len(msSymExprs) {
		return fmt.Sprintf("S%d{%s}", k, msSymExprs[k])
	}
	return fmt.Sprintf("str{%s}", msStrExprs[k-len(msSymExprs)])
}

func newMsSymtab() *msColl {
	c := newMsColl(false, len(msSymExprs))
	c.isSym = true
	c.strs = make([]msStrKey, len(msStrExprs))
	return c
}

// Ways to define a property (argument "how" of the helper sy_set).
const (
	symAssign         = iota // o[k] = v
	symDefine                // defineProperty {value, writable, enumerable: true, configurable: true}
	symDefineNoEnum          // ... enumerable: false
	symDefineNoConf          // ... enumerable: true, configurable: false
	symReflectSet            // Reflect.set(o, k, v)
	symGoSet                 // (*Object).SetSymbol
	symGoDefineNoEnum        // (*Object).DefineDataPropertySymbol(..., enumerable false)
)

// symDefineProp applies a definition of symbol sym; it reports whether the key was present and whether a tombstone of
// it existed (a re-add).
func (c *msColl) symDefineProp(sym, val, client, how int) (present, readd bool) {
	if p := c.pos[sym]; p >= 0 {
		e := &c.entries[p]
		e.val = val
		switch how {
		case symDefine:
			e.enum = true
		case symDefineNoEnum, symGoDefineNoEnum:
			e.enum = false
		case symDefineNoConf:
			e.enum, e.conf = true, false
		}
		c.muts = append(c.muts, msMut{client, 'u'})
		return true, false
	}
	for _, e := range c.entries {
		if e.class == sym {
			readd = true
		}
	}
	c.pos[sym] = len(c.entries)
	c.entries = append(c.entries, msEntry{class: sym, uni: sym, val: val, live: true, era: c.clears,
		enum: how != symDefineNoEnum && how != symGoDefineNoEnum, conf: how != symDefineNoConf})
	c.live++
	c.muts = append(c.muts, msMut{client, 'a'})
	return false, readd
}

// symDelete: false when the property exists and is not configurable.
func (c *msColl) symDelete(sym, client int) (ok, hit bool) {
	p := c.pos[sym]
	if p < 0 {
		return true, false
	}
	if !c.entries[p].conf {
		return false, false
	}
	c.del(sym, client)
	return true, true
}

func (c *msColl) strCounts() (all, enum int) {
	for _, s := range c.strs {
		if s.live {
			all++
			if s.enum {
				enum++
			}
		}
	}
	return
}
