package engines

import (
	"fmt"

	"verif/sim/core"
)

// Callback side effects (part of the WORKLOAD, hence present in the fault-free and in the faulted pass, and fully
// modelled - they never relax the oracle): when the callback of an iterating operation is invoked for index `at`, it
// first logs the value it was given and then, before returning its result, changes the element it is visiting (or a
// neighbour) through the same view, through an aliasing view of another element type, through a DataView, through the
// Go-side []byte, or lets the host detach the buffer. ECMA-262 order: kValue is read (Get) BEFORE callbackfn is
// called; filter/map build their result from the captured values / the mapper's results; later Gets see the new
// bytes; after a detach later Gets yield undefined and the iteration still runs to the original length.

const (
	muNone = iota
	muSameView
	muAliasView
	muDataView
	muGoWrite
	muDetach
)

var muName = [...]string{"none", "write-same-view", "write-alias-view", "write-dataview", "write-go-bytes", "detach"}

type mutSpec struct {
	kind int
	v    int // the view the operation iterates over
	at   int // callback invocation with this index argument
	idx  int // element index written (muSameView: in the receiver, muAliasView: in view w)
	w    int // aliasing view / DataView
	off  int // byte offset (DataView-relative for muDataView, buffer-relative for muGoWrite)
	b    int // buffer
	val  jv
	byt  int
}

func rightTyped(W *core.Track, et int) jv {
	v := genVal(W, et).v
	if etBig(et) != (v.k == jvBig) {
		if etBig(et) {
			return jBig(bufBigs[0])
		}
		return jNum(7)
	}
	return v
}

// genMut draws the side effect of the callback of an operation iterating over view vi (detachOnly: comparators).
func (m *bmodel) genMut(W *core.Track, vi int, detachOnly bool) (mu mutSpec) {
	v := m.views[vi]
	if W.Draw(4) != 3 || v.length() == 0 || v.buf.id < 0 {
		return
	}
	mu.at = W.Draw(v.n)
	mu.v, mu.b = vi, v.buf.id
	pos := v.off + mu.at*v.size() // first byte of the element being visited
	kind := 1 + W.Draw(5)
	if detachOnly {
		if kind = muDetach; W.Draw(2) == 0 {
			return mutSpec{}
		}
	}
	switch kind {
	case muAliasView, muDataView:
		// another view over the same buffer that covers the current element
		for i := range m.views {
			w := m.views[(i+mu.at)%len(m.views)]
			if w == v || w.absent || w.buf != v.buf || !w.live() || w.dv != (kind == muDataView) {
				continue
			}
			if w.dv {
				if pos >= w.off && pos < w.off+w.n {
					mu.kind, mu.w, mu.off, mu.byt = muDataView, w.id, pos-w.off, W.Draw(256)
					return
				}
				continue
			}
			if j := (pos - w.off) / w.size(); pos >= w.off && j < w.n {
				mu.kind, mu.w, mu.idx, mu.val = muAliasView, w.id, j, rightTyped(W, w.et)
				return
			}
		}
		kind = muGoWrite
		fallthrough
	case muGoWrite:
		mu.kind, mu.off, mu.byt = muGoWrite, pos+W.Draw(v.size()), W.Draw(256)
		return
	case muDetach:
		mu.kind = muDetach
		return
	}
	mu.kind, mu.idx, mu.val = muSameView, mu.at+[]int{0, 0, 1, -1}[W.Draw(4)], rightTyped(W, v.et)
	return
}

// mutSrc is the statement the callback executes when it is called for index `at` (i is the index parameter).
func (o *bop) mutSrc() string {
	mu := o.mut
	var act string
	switch mu.kind {
	case muNone:
		return ""
	case muSameView:
		act = fmt.Sprintf("%s[%d] = %s", vname(mu.v), mu.idx, mu.val.src())
	case muAliasView:
		act = fmt.Sprintf("%s[%d] = %s", vname(mu.w), mu.idx, mu.val.src())
	case muDataView:
		act = fmt.Sprintf("%s.setUint8(%d,%d)", vname(mu.w), mu.off, mu.byt)
	case muGoWrite:
		act = fmt.Sprintf("GW(%d,%d,%d)", mu.b, mu.off, mu.byt)
	case muDetach:
		act = fmt.Sprintf("DT(%d)", mu.b)
	}
	return fmt.Sprintf(" if (i===%d) { %s }", mu.at, act)
}

// applyMut performs the side effect on the model; ok=false: the statement itself throws (TypeError: DataView over a
// detached buffer), which ends the operation.
func (m *bmodel) applyMut(o *bop) (ok bool) {
	mu := o.mut
	m.count("callback-" + muName[mu.kind])
	switch mu.kind {
	case muSameView:
		m.views[mu.v].set(mu.idx, mu.val)
	case muAliasView:
		m.views[mu.w].set(mu.idx, mu.val)
	case muDataView:
		w := m.views[mu.w]
		if !w.live() {
			return false
		}
		w.buf.putRaw(w.off+mu.off, uint64(mu.byt), 1, false)
	case muGoWrite:
		if b := m.bufs[mu.b]; !b.detached && mu.off < len(b.data) {
			b.putRaw(mu.off, uint64(mu.byt), 1, false)
		}
	case muDetach:
		m.bufs[mu.b].detached = true
	}
	return true
}

func (m *bmodel) applyIter(o *bop, v *mview, e *expect) {
	if !v.live() {
		e.outcomes = typeErr
		return
	}
	site := o.site(slCb)
	pred := func(i int) bool { return (i+o.cbB)%o.cbM == 0 }
	e.cb = []string{}
	thrown := false
	// visit: Get(O, k) first, then the callback runs (logs what it was given, then its side effect)
	visit := func(i int) (x jv, raw uint64, valid bool) {
		valid = v.live() && i >= 0 && i < v.n
		x = v.get(i)
		if valid {
			raw = v.raw(i)
		}
		e.cb = append(e.cb, cbEvent(site, x))
		if o.mut.kind != muNone && i == o.mut.at && !m.applyMut(o) {
			thrown = true
			e.outcomes = typeErr
		}
		return
	}
	n := v.n
	switch o.sub {
	case itMap:
		dst, ok := m.speciesTA(o, v.et, n)
		if !ok {
			e.outcomes = typeErr
			return
		}
		for i := 0; i < n; i++ {
			x, _, _ := visit(i)
			if thrown {
				return
			}
			switch o.cbM {
			case 1:
				x = o.val.v
			case 2:
				x = negate(x)
			}
			if !dst.set(i, x) {
				e.outcomes = typeErr
				return
			}
		}
		newObj(e, dst)
	case itFilter:
		type keptEl struct {
			raw   uint64
			valid bool
		}
		var kept []keptEl
		undefKept := false
		for i := 0; i < n; i++ {
			_, raw, valid := visit(i)
			if thrown {
				return
			}
			if pred(i) {
				kept = append(kept, keptEl{raw, valid})
				undefKept = undefKept || !valid
			}
		}
		dst, ok := m.speciesTA(o, v.et, len(kept))
		if !ok {
			e.outcomes = typeErr
			return
		}
		for i, k := range kept {
			if k.valid {
				dst.putRaw(i, k.raw, etFloat(v.et) && rawToNumeric(v.et, k.raw).isNaN())
			}
		}
		if undefKept && (etFloat(v.et) || etBig(v.et)) {
			// An element selected after the buffer was detached is `undefined` in the kept list; storing it is NaN for a
			// float array and would be a TypeError (ToBigInt) for a BigInt array, where the spec text asserts "never
			// abrupt" - not fully determined, so the contents of this result are not asserted (integer arrays: 0, asserted).
			e.cb = nil
			e.outcomes = nil
			return
		}
		newObj(e, dst)
	case itForEach:
		for i := 0; i < n; i++ {
			if visit(i); thrown {
				return
			}
		}
		e.outcomes = okVal(jUndef)
	case itReduce, itReduceRight:
		acc, has := o.val.v, o.hasVal
		step, k, end := 1, 0, n
		if o.sub == itReduceRight {
			step, k, end = -1, n-1, -1
		}
		if !has {
			if n == 0 {
				e.outcomes = typeErr
				return
			}
			acc = v.get(k)
			k += step
		}
		for ; k != end; k += step {
			if acc, _, _ = visit(k); thrown {
				return
			}
		}
		e.outcomes = okVal(acc)
	case itFind, itFindIndex, itSome, itEvery:
		for i := 0; i < n; i++ {
			x, _, _ := visit(i)
			if thrown {
				return
			}
			p := pred(i)
			switch {
			case o.sub == itFind && p:
				e.outcomes = okVal(x)
				return
			case o.sub == itFindIndex && p:
				e.outcomes = okVal(jNum(float64(i)))
				return
			case o.sub == itSome && p:
				e.outcomes = okVal(jBool(true))
				return
			case o.sub == itEvery && !p:
				e.outcomes = okVal(jBool(false))
				return
			}
		}
		e.outcomes = okVal(map[int]jv{itFind: jUndef, itFindIndex: jNum(-1), itSome: jBool(false), itEvery: jBool(true)}[o.sub])
	case itFindLast, itFindLastIndex:
		for i := n - 1; i >= 0; i-- {
			x, _, _ := visit(i)
			if thrown {
				return
			}
			if pred(i) {
				if o.sub == itFindLast {
					e.outcomes = okVal(x)
				} else {
					e.outcomes = okVal(jNum(float64(i)))
				}
				return
			}
		}
		if o.sub == itFindLast {
			e.outcomes = okVal(jUndef)
		} else {
			e.outcomes = okVal(jNum(-1))
		}
	}
}

// mutRange: the bytes the callback's side effect may write (in a faulted step the callback may or may not be reached,
// regardless of what the fault-free step does, so the relaxed oracle allows this range too).
func (o *bop) mutRange(m *bmodel) (b *mbuf, lo, hi int) {
	mu := o.mut
	switch mu.kind {
	case muSameView, muAliasView:
		vi := mu.v
		if mu.kind == muAliasView {
			vi = mu.w
		}
		if vi < len(m.views) && !m.views[vi].absent && mu.idx >= 0 && mu.idx < m.views[vi].n {
			v := m.views[vi]
			return v.buf, v.off + mu.idx*v.size(), v.off + (mu.idx+1)*v.size()
		}
	case muDataView:
		if mu.w < len(m.views) && !m.views[mu.w].absent {
			w := m.views[mu.w]
			return w.buf, w.off + mu.off, w.off + mu.off + 1
		}
	case muGoWrite:
		if mu.b < len(m.bufs) && !m.bufs[mu.b].absent {
			return m.bufs[mu.b], mu.off, mu.off + 1
		}
	}
	return nil, 0, 0
}
