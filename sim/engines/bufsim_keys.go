package engines

import (
	"fmt"
	"math"
	"strconv"

	"verif/sim/core"
)

// Element access BY KEY on typed arrays (integer-indexed exotic objects, ECMA-262 10.4.5): reads, writes, `in`,
// Reflect.has/get/set/deleteProperty/defineProperty, delete, Object.getOwnPropertyDescriptor/defineProperty and
// hasOwnProperty, with Number keys and String keys drawn from a boundary pool. A key is first turned into a property
// key string P (ToString of the Number: -0 -> "0"); if CanonicalNumericIndexString(P) is a number the object's own
// integer-indexed semantics decide everything (never the ordinary property table, never the prototype chain):
// IsValidIntegerIndex is false for a detached buffer, a non-integer, -0 (only reachable through the string "-0"),
// index < 0 or >= length. Strings that are not canonical ("1.0", "01", "1e21", "+1") are ordinary properties.

const (
	kyGet = iota
	kySet
	kyIn
	kyReflectHas
	kyReflectGet
	kyReflectSet
	kyDelete
	kyReflectDelete
	kyGOPD
	kyReflectDefine
	kyObjectDefine
	kyReflectDefineRO
	kyHasOwn
	nKeyOps
)

var kyName = [...]string{"get[k]", "set[k]", "in", "Reflect.has", "Reflect.get", "Reflect.set", "delete", "Reflect.deleteProperty",
	"getOwnPropertyDescriptor", "Reflect.defineProperty", "Object.defineProperty", "Reflect.defineProperty(ro)", "hasOwnProperty"}

var keyOrdinaryStrings = []string{"1.0", "01", "1e21", "+1"}

// genKey draws a key for a view of n elements: class 0 is the plain index 0.
func genKey(W *core.Track, n int) (num float64, str string, isStr bool) {
	const p32 = 4294967296.0
	k := 0.0
	if n > 0 {
		k = float64(W.Draw(n))
	}
	switch W.Draw(26) {
	case 0:
		num = 0
	case 1:
		num = float64(n - 1)
	case 2:
		num = float64(n)
	case 3:
		num = float64(n + 1)
	case 4:
		num = -1
	case 5:
		num = math.Copysign(0, -1)
	case 6:
		num = 2147483647
	case 7:
		num = 2147483648
	case 8:
		num = p32 - 1
	case 9:
		num = p32
	case 10, 11:
		num = p32 + k
	case 12, 13:
		num = -p32 + k
	case 14:
		num = 2*p32 + k
	case 15:
		num = 9007199254740991
	case 16:
		num = 9007199254740992
	case 17:
		num = 1e21
	case 18:
		num = math.Inf(1)
	case 19:
		num = math.NaN()
	case 20:
		num = k + 0.5
	case 21:
		num = -p32*float64(1+W.Draw(1024)) + k
	case 22:
		num = p32*float64(1+W.Draw(1<<20)) + k
	default:
		num = k
	}
	switch W.Draw(6) {
	case 4: // the same key as a canonical numeric string ("-0" stays "-0": canonical, never a valid index)
		isStr = true
		if num == 0 && math.Signbit(num) {
			str = "-0"
		} else {
			str = jsNumToString(num)
		}
	case 5:
		isStr, str = true, keyOrdinaryStrings[W.Draw(len(keyOrdinaryStrings))]
	}
	return
}

func (o *bop) keySrc() string {
	if o.keyIsStr {
		return strconv.Quote(o.keyStr)
	}
	if f := o.keyNum; f == math.Trunc(f) && math.Abs(f) < 9007199254740992 && !(f == 0 && math.Signbit(f)) {
		if f < 0 {
			return "(" + strconv.FormatInt(int64(f), 10) + ")"
		}
		return strconv.FormatInt(int64(f), 10) // an integer literal: the engine's integer-key path
	}
	return jNum(o.keyNum).src()
}

// keyInfo: property key string, whether it is a canonical numeric string, and its numeric value.
func (o *bop) keyInfo() (p string, canonical bool, num float64, negZero bool) {
	p = o.keyStr
	if !o.keyIsStr {
		p = jsNumToString(o.keyNum) // ToString(-0) is "0"
	}
	if p == "-0" {
		return p, true, 0, true
	}
	switch p {
	case "Infinity":
		num = math.Inf(1)
	case "-Infinity":
		num = math.Inf(-1)
	case "NaN":
		num = math.NaN()
	default:
		f, err := strconv.ParseFloat(p, 64)
		if err != nil {
			return p, false, 0, false
		}
		num = f
	}
	return p, jsNumToString(num) == p, num, false
}

func (o *bop) keyOrdinary() bool {
	_, c, _, _ := o.keyInfo()
	return !c
}

func (o *bop) renderKey() string {
	V, K := vname(o.v), o.keySrc()
	X := o.valSrc(o.val, slVal)
	full := "{value:" + X + ",writable:true,enumerable:true,configurable:true}"
	switch o.sub {
	case kyGet:
		return V + "[" + K + "]"
	case kySet:
		return "(" + V + "[" + K + "] = " + X + ", 0)"
	case kyIn:
		return "(" + K + " in " + V + ")"
	case kyReflectHas:
		return "Reflect.has(" + V + "," + K + ")"
	case kyReflectGet:
		return "Reflect.get(" + V + "," + K + ")"
	case kyReflectSet:
		return "Reflect.set(" + V + "," + K + "," + X + ")"
	case kyDelete:
		return "(delete " + V + "[" + K + "])"
	case kyReflectDelete:
		return "Reflect.deleteProperty(" + V + "," + K + ")"
	case kyGOPD:
		return "(function(d){ return d===undefined ? 'none' : String(d.value)+'/'+d.writable+'/'+d.enumerable+'/'+d.configurable })(Object.getOwnPropertyDescriptor(" + V + "," + K + "))"
	case kyReflectDefine:
		return "Reflect.defineProperty(" + V + "," + K + "," + full + ")"
	case kyObjectDefine:
		return "Object.defineProperty(" + V + "," + K + "," + full + ")"
	case kyReflectDefineRO:
		return "Reflect.defineProperty(" + V + "," + K + ",{value:" + X + ",writable:false})"
	}
	return "Object.prototype.hasOwnProperty.call(" + V + "," + K + ")"
}

func (m *bmodel) genKeyOp(W *core.Track, o *bop, v int) {
	o.v = v
	o.sub = W.Draw(nKeyOps)
	o.keyNum, o.keyStr, o.keyIsStr = genKey(W, m.views[v].n)
	o.val = genVal(W, m.views[v].et)
	if o.keyOrdinary() {
		o.val.probe = false // an ordinary property stores the value as it is
		if o.sub == kyReflectDefineRO {
			o.sub = kyReflectDefine
		}
	}
}

func (m *bmodel) applyKey(o *bop, v *mview, e *expect) {
	p, canonical, num, negZero := o.keyInfo()
	if !canonical {
		m.count("key-ordinary-property")
		cur, has := v.props[p]
		put := func() {
			if v.props == nil {
				v.props = map[string]jv{}
			}
			v.props[p] = o.val.v
		}
		switch o.sub {
		case kyGet, kyReflectGet:
			if !has {
				cur = jUndef
			}
			e.outcomes = okVal(cur)
		case kySet:
			put()
			e.outcomes = okVal(jNum(0))
		case kyReflectSet, kyReflectDefine:
			put()
			e.outcomes = okVal(jBool(true))
		case kyObjectDefine:
			put()
			e.outcomes = sameObj(v)
		case kyIn, kyReflectHas, kyHasOwn:
			e.outcomes = okVal(jBool(has))
		case kyDelete, kyReflectDelete:
			delete(v.props, p)
			e.outcomes = okVal(jBool(true))
		case kyGOPD:
			if !has {
				e.outcomes = okStr("none")
			} else {
				e.outcomes = okStr(cur.jsToString() + "/true/true/true")
			}
		}
		return
	}
	valid := v.live() && !negZero && !math.IsNaN(num) && !math.IsInf(num, 0) && num == math.Trunc(num) && num >= 0 && num < float64(v.n)
	idx := 0
	if valid {
		idx = int(num)
		m.count("key-valid-index")
	} else {
		m.count("key-invalid-index")
		if math.Abs(num) >= 4294967296 && math.Abs(num) < 1<<62 && num == math.Trunc(num) && v.live() && int(uint32(int64(num))) < v.n {
			m.count("key-beyond-2^32-low-bits-in-range")
		}
	}
	switch o.sub {
	case kyGet, kyReflectGet:
		e.outcomes = okVal(v.get(map[bool]int{true: idx, false: -1}[valid]))
	case kySet, kyReflectSet:
		// TypedArraySetElement: the value is coerced first, then stored if the index is valid
		done := okVal(jBool(true))
		if o.sub == kySet {
			done = okVal(jNum(0))
		}
		if !v.set(map[bool]int{true: idx, false: -1}[valid], o.val.v) {
			e.outcomes = typeErr
			if !valid {
				// Deliberately not asserted (a conformance detail outside C17, no byte is touched): goja coerces the value
				// with the generic ToNumeric when the key is a canonical numeric string that is not a valid integer index,
				// so a value of the wrong content type does not raise the TypeError of ToNumber/ToBigInt
				// (`new Uint8Array(1)[1.5] = 1n`). Either outcome is accepted; bytes stay strictly as modelled.
				e.outcomes = append(e.outcomes, done...)
			}
			return
		}
		e.outcomes = done
	case kyIn, kyReflectHas, kyHasOwn:
		e.outcomes = okVal(jBool(valid))
	case kyDelete, kyReflectDelete:
		e.outcomes = okVal(jBool(!valid))
	case kyGOPD:
		if !valid {
			e.outcomes = okStr("none")
		} else {
			e.outcomes = okStr(v.get(idx).jsToString() + "/true/true/true")
		}
	case kyReflectDefineRO:
		e.outcomes = okVal(jBool(false))
	case kyReflectDefine, kyObjectDefine:
		// [[DefineOwnProperty]]: an invalid index is rejected before the value is looked at
		if !valid {
			if o.sub == kyObjectDefine {
				e.outcomes = typeErr
			} else {
				e.outcomes = okVal(jBool(false))
			}
			return
		}
		if !v.set(idx, o.val.v) {
			e.outcomes = typeErr
			return
		}
		if o.sub == kyObjectDefine {
			e.outcomes = sameObj(v)
		} else {
			e.outcomes = okVal(jBool(true))
		}
	}
}

func keySigName(o *bop) string {
	kind := "num"
	if o.keyIsStr {
		kind = "str"
	}
	return fmt.Sprintf("key:%s(%s)", kyName[o.sub], kind)
}
