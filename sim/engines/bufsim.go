package engines

import (
	"bytes"
	"errors"
	"fmt"
	"os"
	"reflect"
	"runtime"
	"runtime/debug"
	"strconv"
	"strings"
	"sync"
	"unsafe"

	"github.com/dop251/goja"

	"verif/sim/core"
)

// bufsim (E5, property C17): the simulated party is the Go host that owns the memory behind ArrayBuffers. It supplies
// buffers inside guard-paged slabs, and - at probe invocations chosen by the schedule tape - revokes them
// (ArrayBuffer.Detach + the slab page becomes PROT_NONE), overwrites bytes from the Go side, or lets a species
// constructor hand back a shorter / detached / foreign-typed / aliasing array, all of it inside a callback that goja
// invokes in the middle of a typed array operation. Oracles: (1) memory safety: no fault (guard page, revoked page,
// nil+index), no canary damage, no Go panic other than JS exceptions; (2) value model: a byte array per buffer and a
// (buffer, offset, length, type) record per view, written from ECMA-262, predict every result and every byte of every
// fault-free step; after a fault the oracle is relaxed exactly as the property words it (see judgeStep).

const bufsimSetup = `
function O(s,n){ return {valueOf(){ return PV(s,n) }} }
function CMP(s,d,f){ var c = 0; return function(a,b){ PV(s,0); if (f && c++ === 0) f(); var r;
  if (typeof a === 'bigint') r = a<b?-1:(a>b?1:0);
  else if (a!==a) r = (b!==b)?0:1; else if (b!==b) r = -1; else if (a<b) r = -1; else if (a>b) r = 1;
  else if (a===0) { var na = 1/a<0, nb = 1/b<0; r = na===nb?0:(na?-1:1) } else r = 0;
  return r===0 ? 0 : d*r } }
function mkCtor(s,et){ return function(){ return SC(et, Array.prototype.slice.call(arguments)) } }
function mkSpecies(et){ var c = {}; c[Symbol.species] = mkCtor(0,et); return c }
function mkBufSpecies(){ var c = {}; c[Symbol.species] = function(){ return SB(Array.prototype.slice.call(arguments)) }; return c }
`

var (
	bufsimSetupOnce sync.Once
	bufsimSetupPrg  *goja.Program
)

// fault kinds
const (
	bfDetach = iota
	bfRetarget
	bfGoWrite
	bfSpShrink
	bfSpDetached
	bfSpRetype
	bfSpAlias
	nBufFaults
)

var bfName = [...]string{"detach", "retarget", "gowrite", "species-shrink", "species-detached", "species-retype", "species-alias"}

type bfault struct {
	kind  int
	at    int // probe invocation index, counted over the run
	param int
	fired bool
	step  int
	phase string
	note  string
}

type probeRec struct {
	step    int
	site    int
	species bool
}

type rbuf struct {
	ab   goja.ArrayBuffer
	obj  goja.Value
	slab *slab
}

type staleRec struct { // memory of a detached JS-allocated buffer: must never change again
	what string
	mem  []byte
	snap []byte
}

type bhost struct {
	rt     *goja.Runtime
	m      *bmodel
	bufs   []*rbuf
	views  []*goja.Object
	slabs  []*slab
	ctors  [nElemTypes]goja.Value
	nprobe int
	probes []probeRec
	plan   []*bfault
	op     *bop
	step   int
	log    []string

	firedNow    []*bfault      // faults fired during the current step
	detachedNow map[*mbuf]bool // buffers detached by a fault during the current step
	allowed     map[*mbuf][]brange
	lastSpecies *goja.Object
	isDetached  map[*mbuf]bool // what the host really detached so far (the host is the only party that detaches)
	aliasNow    *aliasSpec     // what a species-alias / species-shrink fault handed out in this step (length form only)
	stale       []staleRec
	hookCalls   int64
	res         *core.Result
}

func (h *bhost) release() {
	for _, s := range h.slabs {
		s.release()
	}
	h.slabs = nil
}

// detach performs the host's revocation of model buffer b: ArrayBuffer.Detach(), then the memory is taken back.
func (h *bhost) detach(b *mbuf) bool {
	if b == nil || b.id < 0 || b.id >= len(h.bufs) || h.bufs[b.id] == nil {
		return false
	}
	r := h.bufs[b.id]
	old := r.ab.Bytes()
	if !r.ab.Detach() {
		return false
	}
	h.isDetached[b] = true
	if r.slab != nil {
		r.slab.revoke()
	} else if len(old) > 0 {
		h.stale = append(h.stale, staleRec{what: bname(b.id), mem: old, snap: append([]byte(nil), old...)})
	}
	return true
}

func (h *bhost) detachObj(bufObj goja.Value) bool {
	for i, r := range h.bufs {
		if r != nil && r.obj.SameAs(bufObj) {
			if h.detach(h.m.bufs[i]) {
				h.detachedNow[h.m.bufs[i]] = true
				return true
			}
			return false
		}
	}
	ab, ok := bufObj.Export().(goja.ArrayBuffer)
	if !ok {
		return false
	}
	old := ab.Bytes()
	if !ab.Detach() {
		return false
	}
	if len(old) > 0 {
		h.stale = append(h.stale, staleRec{what: "species result buffer", mem: old, snap: append([]byte(nil), old...)})
	}
	return true
}

func (h *bhost) allow(b *mbuf, lo, hi int) {
	if hi > lo {
		h.allowed[b] = append(h.allowed[b], brange{lo, hi})
	}
}

// probe is the common part of every host callback: count, log, and let the fault schedule act.
func (h *bhost) probe(site int, species bool, arg string) (fired *bfault) {
	k := h.nprobe
	h.nprobe++
	h.probes = append(h.probes, probeRec{step: h.step, site: site, species: species})
	ev := "P" + strconv.Itoa(site)
	if species {
		ev = "S" + strconv.Itoa(site)
	}
	if arg != "" {
		ev += ":" + arg
	}
	h.log = append(h.log, ev)
	for _, f := range h.plan {
		if f.at != k || f.fired {
			continue
		}
		f.step, f.phase = h.step, slotPhase(site%32)
		switch f.kind {
		case bfDetach, bfRetarget, bfGoWrite:
			h.fireBasic(f)
		default:
			if species {
				fired = f // acted upon by the species hook itself
			} else {
				h.res.Count("fault-kind-not-applicable-at-probe", 1)
			}
		}
	}
	return
}

func (h *bhost) markFired(f *bfault, note string) {
	f.fired, f.note = true, note
	h.firedNow = append(h.firedNow, f)
	h.res.Count("fault."+bfName[f.kind], 1)
	if f.kind == bfDetach || f.kind == bfRetarget || f.kind == bfSpDetached {
		h.res.Count("detach-fired-mid-operation", 1)
	}
}

func (h *bhost) fireBasic(f *bfault) {
	ob := h.op.opBufs(h.m)
	switch f.kind {
	case bfDetach:
		if len(ob) > 0 && h.detach(ob[0]) {
			h.detachedNow[ob[0]] = true
			h.markFired(f, "detached "+bname(ob[0].id))
		}
	case bfRetarget:
		// a different buffer that the operation still needs: the source of set()/new TA(src)/from(src), the array a
		// species constructor handed out, else any other buffer
		var cand *mbuf
		for i, b := range ob {
			if i > 0 && b != ob[0] && cand == nil {
				cand = b
			}
		}
		if cand == nil && h.lastSpecies != nil {
			if h.detachObj(h.lastSpecies.Get("buffer")) {
				h.markFired(f, "detached the buffer of the species-created result")
			}
			return
		}
		if cand == nil {
			for i := range h.m.bufs {
				b := h.m.bufs[(i+f.param)%len(h.m.bufs)]
				if !b.absent && !b.detached && (len(ob) == 0 || b != ob[0]) {
					cand = b
					break
				}
			}
		}
		if cand != nil && h.detach(cand) {
			h.detachedNow[cand] = true
			h.markFired(f, "detached "+bname(cand.id))
		}
	case bfGoWrite:
		if len(ob) == 0 {
			return
		}
		b := ob[(f.param>>12)%len(ob)]
		r := h.bufs[b.id]
		mem := r.ab.Bytes()
		if len(mem) == 0 {
			return
		}
		n := min(1+(f.param>>8)%8, len(mem))
		off := (f.param & 0xff) % (len(mem) - n + 1)
		for i := 0; i < n; i++ {
			mem[off+i] = byte(0xff - i*(f.param>>4&0xf))
		}
		h.allow(b, off, off+n)
		h.markFired(f, fmt.Sprintf("host wrote %d bytes into %s at %d", n, bname(b.id), off))
	}
}

func (h *bhost) throw(err error) {
	var ex *goja.Exception
	if errors.As(err, &ex) {
		panic(ex)
	}
	panic(h.rt.NewGoError(err))
}

// speciesHook is the body of every constructor[Symbol.species] / custom constructor: fault-free it behaves exactly
// like the intrinsic constructor of the element type.
func (h *bhost) speciesHook(call goja.FunctionCall) goja.Value {
	et := int(call.Argument(0).ToInteger())
	args := h.rt.ToValue(call.Argument(1)).(*goja.Object)
	var av []goja.Value
	for i, n := 0, int(args.Get("length").ToInteger()); i < n; i++ {
		av = append(av, nilUndef(args.Get(strconv.Itoa(i))))
	}
	h.hookCalls++
	f := h.probe(h.step*32+slSpecies, true, "")
	mk := func(et int, a ...goja.Value) *goja.Object {
		o, err := h.rt.New(h.ctors[et], a...)
		if err != nil {
			h.throw(err)
		}
		return o
	}
	lenForm := len(av) == 1 && !goja.IsUndefined(av[0])
	reqLen := 0
	if lenForm {
		reqLen = int(av[0].ToInteger())
	} else if len(av) == 3 {
		reqLen = int(av[2].ToInteger())
	}
	var out *goja.Object
	if f != nil {
		switch f.kind {
		case bfSpShrink:
			if reqLen > 0 && (lenForm || len(av) == 3) {
				a := append([]goja.Value(nil), av...)
				n2 := reqLen - 1 - (f.param%2)*(reqLen-1)
				a[len(a)-1] = h.rt.ToValue(n2)
				if lenForm {
					h.aliasNow = &aliasSpec{n: n2}
				}
				h.markFired(f, fmt.Sprintf("species constructor returned length %d instead of %d", n2, reqLen))
				out = mk(et, a...)
			}
		case bfSpDetached:
			out = mk(et, av...)
			if h.detachObj(out.Get("buffer")) {
				h.markFired(f, "species constructor returned an array whose buffer is detached")
			}
		case bfSpRetype:
			et2 := (et + 1 + f.param%(nElemTypes-1)) % nElemTypes
			h.markFired(f, "species constructor returned a "+etName[et2]+"Array")
			out = mk(et2, av...)
		case bfSpAlias:
			if lenForm {
				// a view over an existing buffer: mostly the buffer the operation reads from, placed at the end of the buffer
				// (an overrun hits the guard page), at its start, one element after the first source byte (the destination
				// starts INSIDE the source range: forward overlap), or at a drawn offset
				ob := h.op.opBufs(h.m)
				srcLo, srcHi := -1, -1
				if vs, _ := h.op.uses(h.m); len(vs) > 0 {
					sv := h.m.views[vs[0]]
					srcLo, srcHi = sv.off, sv.off+sv.byteLen()
					if h.op.kind == boSlice && sv.live() {
						k, fin := relIndex(h.op.a[0].val(0), sv.n), relIndex(h.op.a[1].val(float64(sv.n)), sv.n)
						srcLo, srcHi = sv.off+k*sv.size(), sv.off+max(fin, k)*sv.size()
					}
				}
				for i := range h.m.bufs {
					b := h.m.bufs[(i+f.param>>8)%len(h.m.bufs)]
					if i == 0 && len(ob) > 0 && (f.param>>4)%4 != 3 {
						b = ob[0]
					}
					if b.absent || b.detached || b.id < 0 || b.id >= len(h.bufs) || h.bufs[b.id] == nil {
						continue
					}
					sz := etSize[et]
					n := min(reqLen, len(b.data)/sz)
					off := (len(b.data) - n*sz) / sz * sz
					if n == reqLen {
						switch f.param % 8 {
						case 1:
							off = 0
						case 2, 3, 4:
							if c := (max(srcLo, 0) + sz) / sz * sz; c+n*sz <= len(b.data) {
								off = c
							}
						case 5, 6:
							off = (f.param >> 10) % ((len(b.data)-n*sz)/sz + 1) * sz
						}
					}
					if len(ob) > 0 && b == ob[0] && srcLo >= 0 && n > 0 {
						switch {
						case off >= srcHi || off+n*sz <= srcLo:
							h.res.Count("species-alias-disjoint-same-buffer", 1)
						case off > srcLo:
							h.res.Count("species-alias-forward-overlap", 1)
						case off < srcLo:
							h.res.Count("species-alias-backward-overlap", 1)
						default:
							h.res.Count("species-alias-exact-overlap", 1)
						}
					} else if n > 0 {
						h.res.Count("species-alias-other-buffer", 1)
					}
					h.aliasNow = &aliasSpec{buf: b, off: off, n: n}
					h.allow(b, off, off+n*sz)
					h.markFired(f, fmt.Sprintf("species constructor returned a view over %s at byte %d, length %d (requested %d)", bname(b.id), off, n, reqLen))
					out = mk(et, h.bufs[b.id].obj, h.rt.ToValue(off), h.rt.ToValue(n))
					break
				}
			}
		}
		if !f.fired {
			h.res.Count("fault-kind-not-applicable-at-probe", 1)
		}
	}
	if out == nil {
		out = mk(et, av...)
	}
	h.lastSpecies = out
	return out
}

func (h *bhost) bufSpeciesHook(call goja.FunctionCall) goja.Value {
	args := h.rt.ToValue(call.Argument(0)).(*goja.Object)
	n := args.Get("0")
	if n == nil {
		n = goja.Undefined()
	}
	h.hookCalls++
	f := h.probe(h.step*32+slBufSpecies, true, "")
	req := int(n.ToInteger())
	if f != nil {
		switch {
		case f.kind == bfSpShrink && req > 0:
			n = h.rt.ToValue(req - 1)
			h.markFired(f, "ArrayBuffer species constructor returned a shorter buffer")
		case f.kind == bfSpAlias:
			ob := h.op.opBufs(h.m)
			if len(ob) > 0 && !ob[0].detached {
				h.markFired(f, "ArrayBuffer species constructor returned the receiver itself")
				return h.bufs[ob[0].id].obj
			}
		}
	}
	o, err := h.rt.New(h.rt.Get("ArrayBuffer"), n)
	if err != nil {
		h.throw(err)
	}
	if f != nil && f.kind == bfSpDetached {
		if h.detachObj(o) {
			h.markFired(f, "ArrayBuffer species constructor returned a detached buffer")
		}
	}
	if f != nil && !f.fired {
		h.res.Count("fault-kind-not-applicable-at-probe", 1)
	}
	return o
}

// ---- rendering values produced by goja, without running script code ---------------------------------------------

func descNumber(v goja.Value) string {
	switch x := v.Export().(type) {
	case int64:
		return numDesc(float64(x))
	case float64:
		return numDesc(x)
	}
	return fmt.Sprintf("?%T", v.Export())
}

func (h *bhost) descValue(v goja.Value) string {
	if v == nil || goja.IsUndefined(v) {
		return "undefined"
	}
	if goja.IsNull(v) {
		return "null"
	}
	if o, ok := v.(*goja.Object); ok {
		return h.descObject(o)
	}
	switch x := v.Export().(type) {
	case int64:
		return numDesc(float64(x))
	case float64:
		return numDesc(x)
	case bool:
		return strconv.FormatBool(x)
	case string:
		return strconv.Quote(x)
	case interface{ String() string }: // *big.Int
		return x.String() + "n"
	}
	return fmt.Sprintf("?%T", v.Export())
}

func (h *bhost) bufTagOf(bufObj goja.Value) string {
	for i, r := range h.bufs {
		if r != nil && r.obj.SameAs(bufObj) {
			return bname(i)
		}
	}
	return "B?"
}

func (h *bhost) descObject(o *goja.Object) string {
	prefix := "new:"
	for i, v := range h.views {
		if v != nil && v == o {
			prefix = "@" + vname(i) + ":"
		}
	}
	if o.ExportType() == reflect.TypeOf(goja.ArrayBuffer{}) {
		return prefix + descBuf(o.Export().(goja.ArrayBuffer).Bytes())
	}
	tag := o.GetSymbol(goja.SymToStringTag)
	name := ""
	if tag != nil && !goja.IsUndefined(tag) {
		name = tag.String()
	}
	bufObj := o.Get("buffer")
	if name == "" || bufObj == nil {
		return prefix + "[" + o.ClassName() + "]"
	}
	bl := 0
	if ab, ok := bufObj.Export().(goja.ArrayBuffer); ok {
		bl = len(ab.Bytes())
	}
	if name == "DataView" {
		if ab, ok := bufObj.Export().(goja.ArrayBuffer); ok && ab.Detached() {
			return prefix + "DataView[" + h.bufTagOf(bufObj) + ",off=0,len=0,buf=0]{}"
		}
		return fmt.Sprintf("%sDataView[%s,off=%d,len=%d,buf=%d]{}", prefix, h.bufTagOf(bufObj), o.Get("byteOffset").ToInteger(), o.Get("byteLength").ToInteger(), bl)
	}
	n := int(o.Get("length").ToInteger())
	var sb strings.Builder
	fmt.Fprintf(&sb, "%s%s[%s,off=%d,len=%d,buf=%d]{", prefix, name, h.bufTagOf(bufObj), o.Get("byteOffset").ToInteger(), n, bl)
	for i := 0; i < n && i < 1100; i++ {
		if i > 0 {
			sb.WriteByte(',')
		}
		sb.WriteString(h.descValue(o.Get(strconv.Itoa(i))))
	}
	sb.WriteByte('}')
	return sb.String()
}

// ---- one pass over the workload -----------------------------------------------------------------------------------

type bufSpec struct {
	n       int
	goOwned bool
	right   bool
	hook    bool
	salt    int
}

type viewSpec struct {
	buf, et, off, n int
	dv, hook        bool
}

type bwork struct {
	bufs  []bufSpec
	views []viewSpec
	ops   []*bop
}

func (w *bwork) newModel(cnt map[string]int64) *bmodel {
	m := &bmodel{cnt: cnt}
	for i, s := range w.bufs {
		b := &mbuf{id: i, data: make([]byte, s.n), goOwned: s.goOwned, right: s.right, hook: s.hook}
		for j := range b.data {
			b.data[j] = byte(j*31 + s.salt*7 + 1)
		}
		m.bufs = append(m.bufs, b)
	}
	for i, s := range w.views {
		m.views = append(m.views, &mview{id: i, buf: m.bufs[s.buf], off: s.off, n: s.n, et: s.et, dv: s.dv, hook: s.hook})
	}
	return m
}

type stepRec struct {
	op      *bop
	skipped bool
	outcome string
	want    []string
	faults  []*bfault
	line    string
}

type passResult struct {
	steps   []stepRec
	probes  []probeRec
	viol    *core.Violation
	lines   []string
	aliased bool
	hooks   int64
}

type bufsim struct{ tier string }

type faultPanic struct {
	rule string
	msg  string
}

// classifyPanic maps a Go panic that escaped from goja to an oracle rule.
func (h *bhost) classifyPanic(x interface{}) (rule, msg string) {
	anyDetached := false
	for _, b := range h.m.bufs {
		if b.detached || h.detachedNow[b] {
			anyDetached = true
		}
	}
	if len(h.stale) > 0 {
		anyDetached = true
	}
	if re, ok := x.(runtime.Error); ok {
		if ae, ok := x.(interface{ Addr() uintptr }); ok {
			addr := ae.Addr()
			for i, s := range h.slabs {
				switch s.classify(addr) {
				case 1:
					base := uintptr(unsafe.Pointer(unsafe.SliceData(s.page)))
					return "out-of-bounds-access", fmt.Sprintf("memory access in the guard region of slab %d at page offset %d (buffer occupies [%d,%d) of the page)", i, int64(addr)-int64(base), s.off, s.off+s.n)
				case 2:
					base := uintptr(unsafe.Pointer(unsafe.SliceData(s.page)))
					return "access-after-detach", fmt.Sprintf("memory access to the revoked slab %d at buffer offset %d after ArrayBuffer.Detach()", i, int64(addr)-int64(base)-int64(s.off))
				}
			}
			if addr < 1<<20 && anyDetached {
				return "access-after-detach", fmt.Sprintf("memory access at nil+%d through the data pointer of a detached buffer", addr)
			}
			// no raw address in the message (it differs from process to process): distance from the receiver's buffer
			if h.op != nil {
				if ob := h.op.opBufs(h.m); len(ob) > 0 && ob[0].id >= 0 && ob[0].id < len(h.bufs) && h.bufs[ob[0].id] != nil && h.bufs[ob[0].id].slab != nil {
					s := h.bufs[ob[0].id].slab
					base := uintptr(unsafe.Pointer(unsafe.SliceData(s.page))) + uintptr(s.off)
					return "out-of-bounds-access", fmt.Sprintf("memory fault outside every buffer, %d bytes from the start of %s", int64(addr)-int64(base), bname(ob[0].id))
				}
			}
			return "out-of-bounds-access", "memory fault at an address outside every buffer"
		}
		if strings.Contains(re.Error(), "nil pointer dereference") && anyDetached {
			return "access-after-detach", "memory access at nil+small offset through the data pointer of a detached buffer (" + re.Error() + ")"
		}
		return "foreign-panic", "Go runtime error escaped to the host: " + re.Error()
	}
	return "foreign-panic", fmt.Sprintf("Go panic escaped to the host: %T %v", x, x)
}

func isFloatNaN(mem []byte, c brange) bool {
	var raw uint64
	for i := c.hi - 1; i >= c.lo; i-- {
		raw = raw<<8 | uint64(mem[i])
	}
	if c.hi-c.lo == 4 {
		return rawToNumeric(etF32, raw).isNaN()
	}
	return c.hi-c.lo == 8 && rawToNumeric(etF64, raw).isNaN()
}

func inRanges(rs []brange, i int) bool {
	for _, r := range rs {
		if i >= r.lo && i < r.hi {
			return true
		}
	}
	return false
}

func (e *bufsim) runPass(w *bwork, plan []*bfault, res *core.Result, want bool) (pr *passResult) {
	pr = &passResult{}
	cnt := map[string]int64{}
	m := w.newModel(cnt)
	h := &bhost{rt: goja.New(), m: m, plan: plan, res: res, detachedNow: map[*mbuf]bool{}, allowed: map[*mbuf][]brange{}, isDetached: map[*mbuf]bool{}}
	defer h.release()
	rt := h.rt
	rt.SetRandSource(func() float64 { return 0.5 })
	fail := func(rule, sig, msg string) {
		if pr.viol == nil {
			pr.viol = &core.Violation{Rule: rule, Sig: sig, Msg: msg}
		}
	}

	// ---- world ---------------------------------------------------------------------------------------------------
	rt.Set("PV", func(call goja.FunctionCall) goja.Value {
		arg := ""
		if len(call.Arguments) > 2 {
			arg = h.descValue(call.Arguments[2])
		}
		h.probe(int(call.Argument(0).ToInteger()), false, arg)
		return call.Argument(1)
	})
	// GW / DT: side effects a callback of the workload asks the host for (Go-side write, revocation); fully modelled
	rt.Set("GW", func(call goja.FunctionCall) goja.Value {
		bi, off := int(call.Argument(0).ToInteger()), int(call.Argument(1).ToInteger())
		if bi >= 0 && bi < len(h.bufs) && h.bufs[bi] != nil {
			if mem := h.bufs[bi].ab.Bytes(); off >= 0 && off < len(mem) {
				mem[off] = byte(call.Argument(2).ToInteger())
			}
		}
		return goja.Undefined()
	})
	rt.Set("DT", func(call goja.FunctionCall) goja.Value {
		bi := int(call.Argument(0).ToInteger())
		if bi >= 0 && bi < len(m.bufs) && !m.bufs[bi].absent && h.detach(m.bufs[bi]) {
			h.detachedNow[m.bufs[bi]] = true
			res.Count("detach-fired-mid-operation", 1)
		}
		return goja.Undefined()
	})
	rt.Set("SC", h.speciesHook)
	rt.Set("SB", h.bufSpeciesHook)
	bufsimSetupOnce.Do(func() { bufsimSetupPrg = goja.MustCompile("setup", bufsimSetup, false) })
	if _, err := rt.RunProgram(bufsimSetupPrg); err != nil {
		panic("bufsim setup: " + err.Error())
	}
	for t := 0; t < nElemTypes; t++ {
		h.ctors[t] = rt.Get(etName[t] + "Array")
	}
	mkSpecies, _ := goja.AssertFunction(rt.Get("mkSpecies"))
	mkBufSpecies, _ := goja.AssertFunction(rt.Get("mkBufSpecies"))
	hookView := func(o *goja.Object, et int) {
		c, err := mkSpecies(goja.Undefined(), rt.ToValue(et))
		if err != nil {
			panic(err)
		}
		o.Set("constructor", c)
	}
	hookBuf := func(o *goja.Object) {
		c, err := mkBufSpecies(goja.Undefined())
		if err != nil {
			panic(err)
		}
		o.Set("constructor", c)
	}
	for i, b := range m.bufs {
		r := &rbuf{}
		if b.goOwned {
			r.slab = acquireSlab(len(b.data), b.right)
			h.slabs = append(h.slabs, r.slab)
			copy(r.slab.buf, b.data)
			r.ab = rt.NewArrayBuffer(r.slab.buf)
			r.obj = rt.ToValue(r.ab)
		} else {
			o, err := rt.New(rt.Get("ArrayBuffer"), rt.ToValue(len(b.data)))
			if err != nil {
				panic(err)
			}
			r.obj, r.ab = o, o.Export().(goja.ArrayBuffer)
			copy(r.ab.Bytes(), b.data)
		}
		if b.hook {
			hookBuf(r.obj.(*goja.Object))
		}
		rt.Set(bname(i), r.obj)
		h.bufs = append(h.bufs, r)
	}
	for i, v := range m.views {
		var o *goja.Object
		var err error
		if v.dv {
			o, err = rt.New(rt.Get("DataView"), h.bufs[v.buf.id].obj, rt.ToValue(v.off), rt.ToValue(v.n))
		} else {
			o, err = rt.New(h.ctors[v.et], h.bufs[v.buf.id].obj, rt.ToValue(v.off), rt.ToValue(v.n))
			if err == nil && v.hook {
				hookView(o, v.et)
			}
		}
		if err != nil {
			panic(fmt.Sprintf("bufsim: creating initial view %d: %v", i, err))
		}
		rt.Set(vname(i), o)
		h.views = append(h.views, o)
	}

	// ---- the sweep after every step ------------------------------------------------------------------------------
	// relaxed != nil: the step had a fault; bytes may differ from the model inside relaxed[b] (adopted afterwards)
	sweep := func(op *bop, sig string, relaxed map[*mbuf][]brange, full bool) bool {
		opName := "setup"
		if op != nil {
			opName = op.kindName()
		}
		for i, s := range h.slabs {
			if off, ok := s.canaryOK(); !ok {
				fail("canary-corrupted", "canary-corrupted "+sig, fmt.Sprintf("step %d (%s): byte %d of the page of slab %d (outside the buffer [%d,%d)) was overwritten", h.step, opName, off, i, s.off, s.off+s.n))
				return false
			}
		}
		for _, st := range h.stale {
			if !bytes.Equal(st.mem, st.snap) {
				fail("access-after-detach", "access-after-detach "+sig, fmt.Sprintf("step %d (%s): the memory of %s changed after ArrayBuffer.Detach() returned: % x -> % x", h.step, opName, st.what, st.snap, st.mem))
				return false
			}
		}
		for i, b := range m.bufs {
			if b.absent || h.bufs[i] == nil {
				continue
			}
			r := h.bufs[i]
			if b.detached {
				if !r.ab.Detached() || r.ab.Bytes() != nil {
					fail("detached-model-mismatch", "detached-model-mismatch buffer "+sig, fmt.Sprintf("step %d: %s was detached by the host but ArrayBuffer.Detached()=%v len(Bytes())=%d", h.step, bname(i), r.ab.Detached(), len(r.ab.Bytes())))
					return false
				}
				continue
			}
			if r.ab.Detached() {
				fail("detached-model-mismatch", "detached-model-mismatch buffer "+sig, fmt.Sprintf("step %d (%s): %s reports detached but nobody detached it", h.step, opName, bname(i)))
				return false
			}
			mem := r.ab.Bytes()
			if r.slab != nil && (len(mem) != len(r.slab.buf) || (len(mem) > 0 && unsafe.SliceData(mem) != unsafe.SliceData(r.slab.buf))) {
				fail("alias-mismatch", "alias-mismatch bytes-export "+sig, fmt.Sprintf("step %d: ArrayBuffer.Bytes() of %s is not the []byte the host supplied", h.step, bname(i)))
				return false
			}
			if len(mem) != len(b.data) {
				fail("bytes-mismatch", "bytes-mismatch length "+sig, fmt.Sprintf("step %d (%s): %s has %d bytes, model %d", h.step, opName, bname(i), len(mem), len(b.data)))
				return false
			}
			for j := 0; j < len(mem); j++ {
				if mem[j] == b.data[j] {
					continue
				}
				if c, ok := b.nanCellAt(j); ok && isFloatNaN(mem, c) {
					copy(b.data[c.lo:c.hi], mem[c.lo:c.hi]) // any NaN is the same value: adopt the engine's bit pattern
					continue
				}
				if relaxed != nil && inRanges(relaxed[b], j) {
					b.data[j] = mem[j]
					continue
				}
				where := "a byte the operation must not change"
				if b.inDirty(j) {
					where = "a byte the operation writes"
				}
				fail("bytes-mismatch", "bytes-mismatch "+sig, fmt.Sprintf("step %d (%s): %s byte %d is %#02x, the model says %#02x (%s)\n  engine: % x\n  model : % x", h.step, opName, bname(i), j, mem[j], b.data[j], where, mem, b.data))
				return false
			}
			b.nanCells = b.nanCells[:0]
		}
		// views: accessors, export aliasing, element read-back
		for i, v := range m.views {
			if v.absent || h.views[i] == nil {
				continue
			}
			touched := len(v.buf.dirty) > 0 || h.detachedNow[v.buf]
			if !full && !touched {
				continue
			}
			o := h.views[i]
			if v.dv {
				continue
			}
			gl, gof := int(o.Get("length").ToInteger()), int(o.Get("byteOffset").ToInteger())
			if !v.live() {
				if gl != 0 || gof != 0 || !goja.IsUndefined(nilUndef(o.Get("0"))) {
					fail("detached-model-mismatch", "detached-model-mismatch view "+sig, fmt.Sprintf("step %d: %s over detached %s reports length=%d byteOffset=%d [0]=%v", h.step, vname(i), bname(v.buf.id), gl, gof, o.Get("0")))
					return false
				}
				continue
			}
			if gl != v.n || gof != v.off {
				fail("result-mismatch", "result-mismatch view-accessors "+sig, fmt.Sprintf("step %d: %s reports length=%d byteOffset=%d, model length=%d byteOffset=%d", h.step, vname(i), gl, gof, v.n, v.off))
				return false
			}
			if v.n > 0 && v.buf.id >= 0 {
				// the Go slice obtained by Export() must alias the same bytes
				if x := o.Export(); x != nil {
					rv := reflect.ValueOf(x)
					memBase := uintptr(unsafe.Pointer(unsafe.SliceData(h.bufs[v.buf.id].ab.Bytes())))
					if rv.Kind() != reflect.Slice || rv.Len() != v.n || rv.Pointer() != memBase+uintptr(v.off) {
						fail("alias-mismatch", "alias-mismatch export "+sig, fmt.Sprintf("step %d: Export() of %s does not alias bytes [%d,%d) of %s", h.step, vname(i), v.off, v.off+v.byteLen(), bname(v.buf.id)))
						return false
					}
				}
			}
			// read back elements through the engine: first, last, and up to four inside what this step wrote
			idx := []int{0, v.n - 1}
			for _, d := range v.buf.dirty {
				for k, c := max((d.lo-v.off)/v.size(), 0), 0; k < v.n && v.off+k*v.size() < d.hi && c < 4; k, c = k+1, c+1 {
					idx = append(idx, k)
				}
			}
			for _, k := range idx {
				if k < 0 || k >= v.n {
					continue
				}
				got, wantV := h.descValue(o.Get(strconv.Itoa(k))), v.get(k).desc()
				if got != wantV {
					fail("alias-mismatch", "alias-mismatch read "+etName[v.et]+" "+sig, fmt.Sprintf("step %d (%s): %s[%d] reads %s but the bytes of %s (% x) decode to %s", h.step, opName, vname(i), k, got, bname(v.buf.id), v.buf.data[v.off+k*v.size():v.off+(k+1)*v.size()], wantV))
					return false
				}
			}
		}
		return true
	}
	if !sweep(nil, "setup", nil, true) {
		return
	}

	// ---- steps ---------------------------------------------------------------------------------------------------
	for si, op := range w.ops {
		h.step, h.op = si, op
		h.log = h.log[:0]
		h.firedNow = h.firedNow[:0]
		h.lastSpecies = nil
		h.aliasNow = nil
		for k := range h.detachedNow {
			delete(h.detachedNow, k)
		}
		for k := range h.allowed {
			delete(h.allowed, k)
		}
		for _, b := range m.bufs {
			b.dirty = b.dirty[:0]
		}
		et := -1
		var snap []bufSnap
		if plan != nil && (op.kind == boSlice || op.kind == boFrom || op.kind == boOf || (op.kind == boIter && (op.sub == itMap || op.sub == itFilter))) {
			snap = m.snapshot()
		}
		exp := m.apply(op)
		rec := stepRec{op: op}
		if exp.skip {
			rec.skipped = true
			// results of a skipped step never come into existence
			if op.res >= 0 {
				for len(m.views) <= op.res {
					m.views = append(m.views, &mview{id: len(m.views), buf: &mbuf{id: -1}, absent: true})
					h.views = append(h.views, nil)
				}
			}
			if op.resBuf >= 0 {
				for len(m.bufs) <= op.resBuf {
					m.bufs = append(m.bufs, &mbuf{id: len(m.bufs), absent: true})
					h.bufs = append(h.bufs, nil)
				}
			}
			pr.steps = append(pr.steps, rec)
			pr.lines = append(pr.lines, fmt.Sprintf("%d|skipped", si))
			continue
		}
		et = op.elemType(m)
		etn := "-"
		if et >= 0 {
			etn = etName[et]
		}
		sigBase := op.kindName() + " " + etn

		// the result slots exist from now on (absent until the step succeeds)
		var newView *mview
		var newBuf *mbuf

		var outcome string
		var resVal goja.Value
		switch op.kind {
		case boHostDetach:
			if h.detach(m.bufs[op.b]) {
				res.Count("host-detach-between-steps", 1)
			}
			outcome = "=host"
			exp.outcomes = []string{"=host"}
		case boHostWrite:
			if mem := h.bufs[op.b].ab.Bytes(); mem != nil {
				copy(mem[int(op.a[0].f):], op.host)
				res.Count("host-write-between-steps", 1)
			}
			outcome = "=host"
			exp.outcomes = []string{"=host"}
		default:
			if op.prog == nil {
				p, err := goja.Compile("step", op.src, false)
				if err != nil {
					panic(fmt.Sprintf("bufsim: step source does not compile: %v\n%s", err, op.src))
				}
				op.prog = p
			}
			var fp *faultPanic
			func() {
				defer func() {
					if x := recover(); x != nil {
						if os.Getenv("VERIF_DEBUG") != "" {
							fmt.Fprintf(os.Stderr, "escaped panic: %v\n%s\n", x, debug.Stack())
						}
						rule, msg := h.classifyPanic(x)
						fp = &faultPanic{rule, msg}
					}
				}()
				v, err := rt.RunProgram(op.prog)
				if err != nil {
					var ex *goja.Exception
					if errors.As(err, &ex) {
						name := "?"
						if o, ok := ex.Value().(*goja.Object); ok {
							if n := o.Get("name"); n != nil {
								name = n.String()
							}
						} else {
							name = "thrown:" + h.descValue(ex.Value())
						}
						outcome = "!" + name
					} else {
						outcome = "!go:" + err.Error()
					}
					return
				}
				resVal = v
			}()
			if fp != nil {
				fs := "nofault"
				if len(h.firedNow) > 0 {
					fs = bfName[h.firedNow[0].kind] + "@" + h.firedNow[0].phase
				}
				rec.faults = append(rec.faults, h.firedNow...)
				rec.outcome = "GO PANIC"
				pr.steps = append(pr.steps, rec)
				fail(fp.rule, fp.rule+" "+sigBase+" "+fs, fmt.Sprintf("step %d: %s: %s", si, op.describe(m), fp.msg))
				pr.probes = h.probes
				return
			}
			if outcome == "" {
				func() {
					defer func() {
						if x := recover(); x != nil {
							outcome = fmt.Sprintf("=<describing the result panicked: %v>", x)
						}
					}()
					outcome = "=" + h.descValue(resVal)
				}()
			}
		}
		faulted := len(h.firedNow) > 0
		// STRICT under species-alias / species-shrink: when the only fault of the step is a species constructor handing
		// out a view over an existing buffer (or a shorter array) for a single-length request, ECMA-262 still determines
		// the outcome, the callback values and every byte (slice: bytes transferred one at a time in ascending order;
		// map/filter/from/of: element-wise Get/Set in index order; too short: TypeError before anything is written). The
		// model is rewound and the step re-applied with that species result; the step is then judged like a fault-free one.
		strictAlias := false
		if snap != nil && len(h.firedNow) == 1 && h.aliasNow != nil && (h.firedNow[0].kind == bfSpAlias || h.firedNow[0].kind == bfSpShrink) && len(h.detachedNow) == 0 {
			m.restore(snap)
			saved := m.cnt
			m.cnt, m.alias = nil, h.aliasNow
			exp = m.apply(op)
			m.cnt, m.alias = saved, nil
			strictAlias = true
			res.Count("strict-oracle-under-species-fault", 1)
		}
		rec.outcome, rec.want = outcome, exp.outcomes
		rec.faults = append(rec.faults, h.firedNow...)
		fs := "nofault"
		if faulted {
			f := h.firedNow[0]
			fs = bfName[f.kind] + "@" + f.phase
			detachKind := false
			for _, f := range h.firedNow {
				if f.kind == bfDetach || f.kind == bfRetarget || f.kind == bfSpDetached {
					detachKind = true
				}
			}
			if detachKind {
				if outcome == "!TypeError" {
					res.Count("op-threw-TypeError-after-detach", 1)
				} else if strings.HasPrefix(outcome, "=") {
					res.Count("op-completed-after-detach", 1)
				}
			}
		}
		sig := sigBase + " " + fs

		// ---- judge the outcome -----------------------------------------------------------------------------------
		okOutcome := exp.outcomes == nil
		for _, w := range exp.outcomes {
			if w == outcome {
				okOutcome = true
			}
		}
		if faulted && !strictAlias {
			// RELAXED (property wording): the step throws TypeError (RangeError where the spec says so) or completes
			okOutcome = okOutcome || outcome == "!TypeError" || outcome == "!RangeError" || strings.HasPrefix(outcome, "=")
		}
		if !okOutcome {
			rule := "result-mismatch"
			for _, b := range op.opBufs(m) {
				if b.detached && !h.detachedNow[b] {
					rule = "detached-model-mismatch"
				}
			}
			fail(rule, rule+" "+sig, fmt.Sprintf("step %d: %s\n  produced %s\n  expected %s", si, op.describe(m), core.Trunc(outcome, 600), core.Trunc(strings.Join(exp.outcomes, " or "), 600)))
		}
		if (!faulted || strictAlias) && exp.cb != nil && pr.viol == nil && strings.HasPrefix(outcome, "=") {
			var got []string
			for _, ev := range h.log {
				if strings.HasPrefix(ev, "P"+strconv.Itoa(op.site(slCb))+":") {
					got = append(got, ev)
				}
			}
			if strings.Join(got, " ") != strings.Join(exp.cb, " ") {
				fail("result-mismatch", "result-mismatch callback-values "+sig, fmt.Sprintf("step %d: %s\n  the callback saw %s\n  expected      %s", si, op.describe(m), strings.Join(got, " "), strings.Join(exp.cb, " ")))
			}
		}

		// ---- register results --------------------------------------------------------------------------------------
		if op.res >= 0 {
			nv := &mview{id: op.res, buf: &mbuf{id: -1}, absent: true}
			var obj *goja.Object
			if !faulted && exp.newView != nil && strings.HasPrefix(outcome, "=new:") && pr.viol == nil {
				nv = exp.newView
				obj, _ = resVal.(*goja.Object)
			}
			newView = nv
			for len(m.views) < op.res {
				m.views = append(m.views, &mview{id: len(m.views), buf: &mbuf{id: -1}, absent: true})
				h.views = append(h.views, nil)
			}
			m.views = append(m.views, nv)
			h.views = append(h.views, obj)
			if obj != nil {
				rt.Set(vname(op.res), obj)
				if nv.hook && !nv.dv {
					hookView(obj, nv.et)
				}
			}
		}
		if op.resBuf >= 0 {
			nb := &mbuf{id: op.resBuf, absent: true}
			var rb *rbuf
			if !faulted && exp.newBuf != nil && strings.HasPrefix(outcome, "=new:") && pr.viol == nil {
				if o, ok := resVal.(*goja.Object); ok {
					bo := goja.Value(o)
					if op.kind != boBufSlice {
						bo = o.Get("buffer")
					}
					if ab, ok := bo.Export().(goja.ArrayBuffer); ok {
						nb = exp.newBuf
						nb.id = op.resBuf
						rb = &rbuf{ab: ab, obj: bo}
						rt.Set(bname(op.resBuf), bo)
					}
				}
			}
			newBuf = nb
			for len(m.bufs) < op.resBuf {
				m.bufs = append(m.bufs, &mbuf{id: len(m.bufs), absent: true})
				h.bufs = append(h.bufs, nil)
			}
			m.bufs = append(m.bufs, nb)
			h.bufs = append(h.bufs, rb)
			if rb == nil && newView != nil && !newView.absent && newView.buf == exp.newBuf {
				newView.absent = true
				h.views[op.res] = nil
			}
		} else if newView != nil && !newView.absent && newView.buf.id < 0 {
			// the result's own buffer is not tracked: the view was checked in full as the step result; drop it
			newView.absent = true
			h.views[op.res] = nil
		}
		_ = newBuf

		// ---- bytes, canaries, aliasing -------------------------------------------------------------------------------
		if pr.viol == nil {
			var relaxed map[*mbuf][]brange
			if faulted && !strictAlias {
				relaxed = map[*mbuf][]brange{}
				for _, b := range m.bufs {
					relaxed[b] = append(append([]brange(nil), b.dirty...), h.allowed[b]...)
				}
				if mb, lo, hi := op.mutRange(m); mb != nil {
					relaxed[mb] = append(relaxed[mb], brange{lo, hi})
				}
				// in a faulted step a callback of the workload may not have been reached (or an extra detach fired): the
				// detached state is what the host really did
				for _, b := range m.bufs {
					if !b.absent && b.id >= 0 {
						b.detached = h.isDetached[b]
					}
				}
			}
			sweep(op, sig, relaxed, si == len(w.ops)-1)
		}
		// reach: bytes written in this step seen through views of >= 2 element types
		if !faulted {
			for _, b := range m.bufs {
				if b.absent || b.detached || len(b.dirty) == 0 {
					continue
				}
				types := map[int]bool{}
				for _, v := range m.views {
					if v.absent || v.dv || v.buf != b || v.n == 0 {
						continue
					}
					for _, d := range b.dirty {
						if v.off < d.hi && d.lo < v.off+v.byteLen() {
							types[v.et] = true
						}
					}
				}
				if len(types) >= 2 {
					pr.aliased = true
					cnt["aliased-write-two-types"]++
				}
			}
		}
		line := fmt.Sprintf("%d|%s|%s|%s|%s", si, op.describe(m), core.Trunc(outcome, 300), strings.Join(h.log, " "), fs)
		for i, b := range m.bufs {
			if !b.absent && !b.detached {
				line += fmt.Sprintf("|%s=%x", bname(i), b.data)
			}
		}
		rec.line = line
		pr.lines = append(pr.lines, line)
		pr.steps = append(pr.steps, rec)
		if pr.viol != nil {
			break
		}
	}
	pr.probes = h.probes
	pr.hooks = h.hookCalls
	cnt["species-hook-called"] += h.hookCalls
	for k, v := range cnt {
		res.Count(k, v)
	}
	res.Steps += int64(len(pr.steps)) + int64(h.nprobe)
	return
}

func nilUndef(v goja.Value) goja.Value {
	if v == nil {
		return goja.Undefined()
	}
	return v
}

// ---- workload ---------------------------------------------------------------------------------------------------

func genBufWork(W *core.Track) *bwork {
	w := &bwork{}
	nb := 1 + W.Draw(3)
	for i := 0; i < nb; i++ {
		s := bufSpec{}
		switch W.Draw(8) {
		case 0:
			s.n = 16
		case 1:
			s.n = 8
		case 2:
			s.n = 64
		case 3:
			s.n = 8 * W.Draw(9) // 0..64 in steps of 8
		case 4:
			s.n = 32
		case 5:
			s.n = 24
		default:
			s.n = W.Draw(65)
		}
		s.goOwned = W.Draw(5) != 4
		s.right = W.Draw(3) != 2
		s.hook = W.Draw(4) == 3
		s.salt = W.Draw(16)
		w.bufs = append(w.bufs, s)
	}
	nv := 1 + W.Draw(5)
	for i := 0; i < nv; i++ {
		v := viewSpec{buf: W.Draw(nb)}
		bl := w.bufs[v.buf].n
		if i > 0 && W.Draw(7) == 6 {
			v.dv = true
			if W.Draw(2) == 1 {
				v.off = W.Draw(bl + 1)
			}
			v.n = bl - v.off
			if W.Draw(3) == 2 {
				v.n = W.Draw(bl - v.off + 1)
			}
			w.views = append(w.views, v)
			continue
		}
		v.et = W.Draw(nElemTypes)
		sz := etSize[v.et]
		maxE := bl / sz
		oe := 0
		switch W.Draw(4) {
		case 1, 2:
			oe = W.Draw(maxE/2 + 1)
		case 3:
			oe = W.Draw(maxE + 1)
		}
		v.off = oe * sz
		switch W.Draw(4) {
		case 0, 1:
			v.n = maxE - oe // up to the last whole element of the buffer
		case 2:
			v.n = W.Draw(maxE - oe + 1)
		default:
			v.n = (maxE - oe) / 2
		}
		v.hook = W.Draw(3) == 2
		w.views = append(w.views, v)
	}
	m := w.newModel(nil)
	nops := 1 + W.Draw(25)
	for i := 0; i < nops; i++ {
		op := m.genOp(W, i)
		op.src = op.render(m)
		op.sigEt = op.elemType(m)
		for _, b := range m.bufs {
			b.dirty = b.dirty[:0]
		}
		exp := m.apply(op)
		if exp.newBuf != nil && len(exp.newBuf.data) > 128 {
			// results keep being checked in full as step results, but big ones are not operated on further (sizes would
			// grow eightfold per conversion step)
			op.res, op.resBuf = -1, -1
		}
		// advance the generation-time model the way a fault-free run does
		if op.res >= 0 {
			nv := exp.newView
			if nv == nil || len(exp.outcomes) != 1 || !strings.HasPrefix(exp.outcomes[0], "=new:") {
				nv = &mview{id: op.res, buf: &mbuf{id: -1}, absent: true}
			}
			m.views = append(m.views, nv)
		}
		if op.resBuf >= 0 {
			nb := exp.newBuf
			if nb == nil || len(exp.outcomes) != 1 || !strings.HasPrefix(exp.outcomes[0], "=new:") {
				nb = &mbuf{id: op.resBuf, absent: true}
			}
			nb.id = op.resBuf
			m.bufs = append(m.bufs, nb)
		} else if op.res >= 0 {
			if nv := m.views[op.res]; !nv.absent && nv.buf.id < 0 {
				nv.absent = true
			}
		}
		w.ops = append(w.ops, op)
	}
	return w
}

func (w *bwork) render(pr *passResult, plan []*bfault) string {
	var sb strings.Builder
	for i, b := range w.bufs {
		kind := "JS-allocated"
		if b.goOwned {
			kind = "Go slab, left-aligned in its page"
			if b.right {
				kind = "Go slab, right-aligned in its page"
			}
		}
		hk := ""
		if b.hook {
			hk = ", constructor[Symbol.species] hook"
		}
		fmt.Fprintf(&sb, "%s: %d bytes (%s%s)\n", bname(i), b.n, kind, hk)
	}
	for i, v := range w.views {
		hk := ""
		if v.hook {
			hk = "   [species hook]"
		}
		if v.dv {
			fmt.Fprintf(&sb, "%s = new DataView(%s, %d, %d)\n", vname(i), bname(v.buf), v.off, v.n)
		} else {
			fmt.Fprintf(&sb, "%s = new %sArray(%s, %d, %d)%s\n", vname(i), etName[v.et], bname(v.buf), v.off, v.n, hk)
		}
	}
	for _, f := range plan {
		fmt.Fprintf(&sb, "fault plan: %s at probe invocation #%d\n", bfName[f.kind], f.at)
	}
	m := w.newModel(nil)
	for i, op := range w.ops {
		fmt.Fprintf(&sb, "step %2d: %s\n", i, op.describe(m))
		if pr != nil && i < len(pr.steps) {
			st := pr.steps[i]
			for _, f := range st.faults {
				fmt.Fprintf(&sb, "           FAULT %s inside %s callback (probe #%d): %s\n", bfName[f.kind], f.phase, f.at, f.note)
			}
			if st.skipped {
				sb.WriteString("           (skipped: operand does not exist in this pass)\n")
			} else {
				fmt.Fprintf(&sb, "           -> %s\n", core.Trunc(st.outcome, 300))
			}
		}
	}
	return sb.String()
}

func (e *bufsim) Run(t *core.Tape, want bool) *core.Result {
	res := &core.Result{}
	old := debug.SetPanicOnFault(true)
	defer debug.SetPanicOnFault(old)
	defer trimSlabPool()
	W, S := &t.W, &t.S
	w := genBufWork(W)
	faultFree := S.Draw(4) == 0 // every 4th run on average keeps the full strict oracle from start to end

	finish := func(pr *passResult, plan []*bfault, phase string) *core.Result {
		if pr.viol != nil {
			v := pr.viol
			res.Fail(v.Rule, v.Sig, "["+phase+"] "+v.Msg, w.render(pr, plan))
		}
		// signature: distinct (op kind, element type, fault kind, phase) tuples
		seen := map[string]bool{}
		var parts []string
		for _, st := range pr.steps {
			if st.skipped {
				continue
			}
			key := st.op.kindName() + "/" + strconv.Itoa(st.op.sigEt)
			fk := "none"
			for _, f := range st.faults {
				fk = bfName[f.kind] + "@" + f.phase
			}
			key += "/" + fk
			if !seen[key] {
				seen[key] = true
				parts = append(parts, key)
			}
		}
		res.Sig = strings.Join(parts, ";")
		res.Digest = core.DigestLines(pr.lines)
		if want || res.Violation != nil {
			res.Sample = w.render(pr, plan)
		}
		return res
	}

	p1 := e.runPass(w, nil, res, want)
	if p1.viol != nil || faultFree || len(p1.probes) == 0 {
		res.Count("runs.fault-free", 1)
		if !faultFree && len(p1.probes) == 0 {
			res.Count("runs.no-probe-to-fault", 1)
		}
		res.NonTrivial = p1.aliased
		return finish(p1, nil, "fault-free pass")
	}
	// ---- fault plan: positions are probe invocations of the fault-free pass --------------------------------------
	var plan []*bfault
	nf := 1 + S.Draw(2)
	for j := 0; j < nf; j++ {
		at := S.Draw(len(p1.probes))
		if S.Draw(3) == 2 {
			// prefer a species-constructor invocation when the run has one
			var sp []int
			for i, p := range p1.probes {
				if p.species {
					sp = append(sp, i)
				}
			}
			if len(sp) > 0 {
				at = sp[S.Draw(len(sp))]
			}
		}
		f := &bfault{at: at, param: 0}
		if p1.probes[at].species {
			// species-alias is the kind with the richest fully determined outcome space: drawn three times as often
			f.kind = min(S.Draw(nBufFaults+2), bfSpAlias)
		} else {
			f.kind = S.Draw(bfGoWrite + 1)
		}
		f.param = S.Draw(1 << 16)
		plan = append(plan, f)
	}
	res.Counters = map[string]int64{"runs.faulted": 1} // reach counters of the fault-free pass are not double counted
	p2 := e.runPass(w, plan, res, want)
	for _, f := range plan {
		if f.fired {
			res.NonTrivial = true
		} else {
			res.Count("fault-position-not-reached-or-not-applicable", 1)
		}
	}
	return finish(p2, plan, "faulted pass")
}

func init() {
	core.Register(&core.Spec{
		Property: "C17", EngineName: "bufsim",
		New: func(tier string) core.Engine {
			// a worker process runs this single-goroutine engine only: more Ps just add GC thread contention between the
			// 16 worker processes (measured: 2x throughput with 1 P)
			if os.Getenv("BUFSIM_KEEP_GOMAXPROCS") == "" {
				runtime.GOMAXPROCS(1)
			}
			return &bufsim{tier: tier}
		},
		QuickRuns: 40000, QuickCapS: 60, ThoroughRun: 2000000, ThoroughCap: 1200,
		Rule: "a case = (1-3 ArrayBuffers of 0-64 bytes in guard-paged Go slabs or JS-allocated, 1-5 initial views of the 11 element types / DataViews, a sequence of 1-25 operations with probe-object arguments, a fault schedule); distinct = distinct set of (operation kind, element type, fault kind, callback phase in which the fault fired) tuples of the run; non-trivial = a fault fired inside a callback of a running operation, or (fault-free runs) bytes written by a step were visible through views of >= 2 element types",
		Real: realComponents,
		Stub: []string{"the Go owner of the ArrayBuffer memory (guard-paged slabs, Detach + revocation, Go-side writes)", "every host native (probe PV, species hooks SC/SB)", "Math.random"},
		Assumptions: []string{
			"the value clause (NumericToRawBytes/RawBytesToNumeric) is checked on the boundary-class values the workload writes, not swept over all values",
			"NaN payloads are not compared (any NaN bit pattern is accepted where the model stores NaN)",
			"after a fault fired inside step s, step s is judged by the relaxed oracle only (throws TypeError/RangeError or completes; bytes may differ from the model only inside the range the fault-free step writes plus what the host itself wrote); its result object is not used by later steps",
			"ArrayBuffer.prototype.slice on a detached buffer and host-side Export() of a view over a detached buffer are not asserted",
			"error precedence between the content-type TypeError and the RangeError of %TypedArray%.prototype.set is not asserted; the order in which argument coercions run is not asserted",
			"[[Set]]/Reflect.set with a key that is a canonical numeric string but not a valid integer index and a value of the wrong content type may throw TypeError or complete silently (goja coerces with the generic ToNumeric there: `new Uint8Array(1)[1.5] = 1n` raises no TypeError); no byte may change either way",
			"resizable ArrayBuffers are not implemented by goja and are not part of the workload",
		},
		FaultKinds: []string{"detach", "retarget", "gowrite", "species-shrink", "species-detached", "species-retype", "species-alias"},
	})
}
