// Command lockyield writes a copy of a goja source tree in which every statement `x.Lock()` / `x.RLock()` is preceded by
// a call to verifyield.Yield() and followed by Acquired(), every release is followed by Released(), every statement that
// contains an atomic store / swap / compare-and-swap / add is preceded by Yield(), every statement that contains an
// atomic load by Load(), and every runtime.Gosched() by Spin()
// (a new leaf package of the copy holding `var Hook func(kind int)`). The copy is semantically the
// same program (Yield is a no-op unless a simulator sets the hook); in the simulator the hook is a scheduling point, so
// that the seeded scheduler can also interleave goroutines BETWEEN two critical sections of one operation (check-then-act
// sequences over a shared Program), which instruction-granular scheduling alone never splits.
//
//	lockyield <src-dir> <dst-dir>
package main

import (
	"bytes"
	"fmt"
	"go/ast"
	"go/format"
	"go/parser"
	"go/token"
	"io/fs"
	"os"
	"path/filepath"
	"reflect"
	"strconv"
	"strings"
)

const yieldPkg = `// Package verifyield exists only in instrumented scratch copies made by /verif/sim/cmd/lockyield.
package verifyield

// Hook, when set, is called around every synchronisation operation of the instrumented tree:
// 0 before a lock acquisition or an atomic read-modify-write/store, 1 after an acquisition, 2 after a release,
// 3 at a runtime.Gosched() (the caller is waiting for another goroutine to make progress), 4 before an atomic load.
var Hook func(kind int)

func Yield() {
	if h := Hook; h != nil {
		h(0)
	}
}

func Acquired() {
	if h := Hook; h != nil {
		h(1)
	}
}

func Released() {
	if h := Hook; h != nil {
		h(2)
	}
}

func Spin() {
	if h := Hook; h != nil {
		h(3)
	}
}

func Load() {
	if h := Hook; h != nil {
		h(4)
	}
}
`

// lockOp classifies a call expression: 1 = x.Lock()/x.RLock(), 2 = x.Unlock()/x.RUnlock(), 0 = anything else.
func lockOp(e ast.Expr) int {
	call, ok := e.(*ast.CallExpr)
	if !ok || len(call.Args) != 0 {
		return 0
	}
	sel, ok := call.Fun.(*ast.SelectorExpr)
	if !ok {
		return 0
	}
	switch sel.Sel.Name {
	case "Lock", "RLock":
		return 1
	case "Unlock", "RUnlock":
		return 2
	}
	return 0
}

// isAtomicMutation: atomic.StoreX/SwapX/CompareAndSwapX/AddX/AndX/OrX(...) of package sync/atomic, or a method call
// x.Store(..)/x.Swap(..)/x.CompareAndSwap(..) (the typed atomics; by name only, a needless yield elsewhere is harmless).
func isAtomicMutation(call *ast.CallExpr) bool {
	sel, ok := call.Fun.(*ast.SelectorExpr)
	if !ok {
		return false
	}
	n := sel.Sel.Name
	if id, ok := sel.X.(*ast.Ident); ok && id.Name == "atomic" {
		for _, p := range []string{"Store", "Swap", "CompareAndSwap", "Add", "And", "Or"} {
			if strings.HasPrefix(n, p) {
				return true
			}
		}
		return false
	}
	return n == "Store" || n == "Swap" || n == "CompareAndSwap"
}

// isAtomicLoad: atomic.LoadX(&v) of package sync/atomic, or a method call x.Load() without arguments.
func isAtomicLoad(call *ast.CallExpr) bool {
	sel, ok := call.Fun.(*ast.SelectorExpr)
	if !ok {
		return false
	}
	if id, ok := sel.X.(*ast.Ident); ok && id.Name == "atomic" {
		return strings.HasPrefix(sel.Sel.Name, "Load")
	}
	return sel.Sel.Name == "Load" && len(call.Args) == 0
}

func isGosched(call *ast.CallExpr) bool {
	sel, ok := call.Fun.(*ast.SelectorExpr)
	if !ok || sel.Sel.Name != "Gosched" {
		return false
	}
	id, ok := sel.X.(*ast.Ident)
	return ok && id.Name == "runtime"
}

// containsCall reports whether the parts of statement s that are evaluated as part of s itself (not its nested
// blocks, which are instrumented on their own, and not function literals) contain a call satisfying pred.
func containsCall(s ast.Stmt, pred func(*ast.CallExpr) bool) bool {
	var parts []ast.Node
	switch x := s.(type) {
	case *ast.IfStmt:
		parts = []ast.Node{x.Init, x.Cond}
	case *ast.ForStmt:
		parts = []ast.Node{x.Init, x.Cond, x.Post}
	case *ast.SwitchStmt:
		parts = []ast.Node{x.Init, x.Tag}
	case *ast.TypeSwitchStmt:
		parts = []ast.Node{x.Init, x.Assign}
	case *ast.RangeStmt:
		parts = []ast.Node{x.X}
	case *ast.ExprStmt, *ast.AssignStmt, *ast.ReturnStmt, *ast.IncDecStmt, *ast.SendStmt, *ast.DeclStmt:
		parts = []ast.Node{x}
	default:
		return false
	}
	found := false
	for _, p := range parts {
		if p == nil || reflect.ValueOf(p).IsNil() {
			continue
		}
		ast.Inspect(p, func(n ast.Node) bool {
			switch c := n.(type) {
			case *ast.FuncLit, *ast.BlockStmt:
				return false
			case *ast.CallExpr:
				if pred(c) {
					found = true
				}
			}
			return !found
		})
	}
	return found
}

// isOnceDo: x.Do(f) with one argument (sync.Once; by name only, treating some other Do as a critical section is harmless).
func isOnceDo(e ast.Expr) bool {
	call, ok := e.(*ast.CallExpr)
	if !ok || len(call.Args) != 1 {
		return false
	}
	sel, ok := call.Fun.(*ast.SelectorExpr)
	return ok && sel.Sel.Name == "Do"
}

func hookCall(name string) *ast.CallExpr {
	return &ast.CallExpr{Fun: &ast.SelectorExpr{X: ast.NewIdent("verifyield"), Sel: ast.NewIdent(name)}}
}

// rewriteList: Yield() before and Acquired() after every acquisition, Released() after every release; a deferred
// release gets a deferred Released() registered BEFORE it, so that it runs after the unlock.
func rewriteList(list []ast.Stmt, n *int) []ast.Stmt {
	var out []ast.Stmt
	for _, s := range list {
		switch x := s.(type) {
		case *ast.ExprStmt:
			if isOnceDo(x.X) {
				// sync.Once.Do holds the Once's own mutex while the function runs: a region in which the goroutine must
				// not be descheduled (another one calling Do would block for real)
				out = append(out, &ast.ExprStmt{X: hookCall("Yield")}, &ast.ExprStmt{X: hookCall("Acquired")}, s, &ast.ExprStmt{X: hookCall("Released")})
				*n++
				continue
			}
			switch lockOp(x.X) {
			case 1:
				out = append(out, &ast.ExprStmt{X: hookCall("Yield")}, s, &ast.ExprStmt{X: hookCall("Acquired")})
				*n++
				continue
			case 2:
				out = append(out, s, &ast.ExprStmt{X: hookCall("Released")})
				*n++
				continue
			}
		case *ast.DeferStmt:
			if lockOp(x.Call) == 2 {
				out = append(out, &ast.DeferStmt{Call: hookCall("Released")}, s)
				*n++
				continue
			}
		}
		if containsCall(s, isGosched) {
			out = append(out, &ast.ExprStmt{X: hookCall("Spin")})
			*n++
		} else if containsCall(s, isAtomicMutation) {
			out = append(out, &ast.ExprStmt{X: hookCall("Yield")})
			*n++
		} else if containsCall(s, isAtomicLoad) {
			out = append(out, &ast.ExprStmt{X: hookCall("Load")})
			*n++
		}
		out = append(out, s)
	}
	return out
}

func main() {
	if len(os.Args) != 3 {
		fmt.Fprintln(os.Stderr, "usage: lockyield <src-dir> <dst-dir>")
		os.Exit(2)
	}
	src, dst := os.Args[1], os.Args[2]
	modPath := ""
	if b, err := os.ReadFile(filepath.Join(src, "go.mod")); err == nil {
		for _, l := range strings.Split(string(b), "\n") {
			if strings.HasPrefix(l, "module ") {
				modPath = strings.TrimSpace(strings.TrimPrefix(l, "module "))
			}
		}
	}
	if modPath == "" {
		fmt.Fprintln(os.Stderr, "lockyield: no module path in", src)
		os.Exit(2)
	}
	total, files := 0, 0
	err := filepath.WalkDir(src, func(p string, d fs.DirEntry, err error) error {
		if err != nil {
			return err
		}
		rel, _ := filepath.Rel(src, p)
		if d.IsDir() {
			if d.Name() == ".git" || d.Name() == "testdata" || rel == "verifyield" {
				return filepath.SkipDir
			}
			return os.MkdirAll(filepath.Join(dst, rel), 0o755)
		}
		if strings.HasSuffix(p, "_test.go") {
			return nil
		}
		b, err := os.ReadFile(p)
		if err != nil {
			return err
		}
		if strings.HasSuffix(p, ".go") {
			fset := token.NewFileSet()
			f, err := parser.ParseFile(fset, p, b, parser.ParseComments)
			if err != nil {
				return err
			}
			n := 0
			unhandled := 0
			ast.Inspect(f, func(nd ast.Node) bool {
				// a lock operation in a position this tool does not instrument (go statement, expression context) would
				// leave the held-lock accounting wrong: refuse rather than guess
				if g, ok := nd.(*ast.GoStmt); ok && lockOp(g.Call) != 0 {
					unhandled++
				}
				if d, ok := nd.(*ast.DeferStmt); ok && lockOp(d.Call) == 1 {
					unhandled++
				}
				return true
			})
			if unhandled > 0 {
				return fmt.Errorf("%s: %d lock operations in go/defer-acquire position are not supported", p, unhandled)
			}
			ast.Inspect(f, func(nd ast.Node) bool {
				switch x := nd.(type) {
				case *ast.BlockStmt:
					x.List = rewriteList(x.List, &n)
				case *ast.CaseClause:
					x.Body = rewriteList(x.Body, &n)
				case *ast.CommClause:
					x.Body = rewriteList(x.Body, &n)
				}
				return true
			})
			if n > 0 {
				// add the import as a declaration of its own right after the package clause (keeps comments in place)
				imp := &ast.GenDecl{Tok: token.IMPORT, Specs: []ast.Spec{&ast.ImportSpec{Path: &ast.BasicLit{Kind: token.STRING, Value: strconv.Quote(modPath + "/verifyield")}}}}
				f.Decls = append([]ast.Decl{imp}, f.Decls...)
				var buf bytes.Buffer
				if err := format.Node(&buf, fset, f); err != nil {
					return fmt.Errorf("%s: %v", p, err)
				}
				b = buf.Bytes()
				total += n
				files++
			}
		}
		return os.WriteFile(filepath.Join(dst, rel), b, 0o644)
	})
	if err != nil {
		fmt.Fprintln(os.Stderr, "lockyield:", err)
		os.Exit(2)
	}
	if err := os.MkdirAll(filepath.Join(dst, "verifyield"), 0o755); err != nil {
		fmt.Fprintln(os.Stderr, "lockyield:", err)
		os.Exit(2)
	}
	if err := os.WriteFile(filepath.Join(dst, "verifyield", "yield.go"), []byte(yieldPkg), 0o644); err != nil {
		fmt.Fprintln(os.Stderr, "lockyield:", err)
		os.Exit(2)
	}
	fmt.Printf("lockyield: %d synchronisation operations in %d files instrumented\n", total, files)
}
