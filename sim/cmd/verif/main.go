// Command verif is the deterministic-simulation driver: `verif run --prop Cxx --tier quick|thorough`,
// `verif replay <file>`, plus the internal `worker` and `exec` sub-commands the orchestrator forks.
package main

import (
	"flag"
	"fmt"
	"os"
	"strconv"
	"time"

	"verif/sim/core"
	_ "verif/sim/ctl"
	_ "verif/sim/engines"
)

func seedFromEnv() uint64 {
	if v := os.Getenv("VERIF_SEED"); v != "" {
		if n, err := strconv.ParseInt(v, 10, 64); err == nil {
			return uint64(n)
		}
		if n, err := strconv.ParseUint(v, 10, 64); err == nil {
			return n
		}
	}
	return 1
}

func main() {
	if len(os.Args) < 2 {
		fmt.Fprintln(os.Stderr, "usage: verif run|replay|worker|exec|show ...")
		os.Exit(2)
	}
	cmd := os.Args[1]
	fs := flag.NewFlagSet(cmd, flag.ExitOnError)
	prop := fs.String("prop", "", "property id")
	tier := fs.String("tier", "quick", "quick|thorough")
	seed := fs.Uint64("seed", seedFromEnv(), "seed")
	wid := fs.Int("wid", 0, "")
	nw := fs.Int("nw", 1, "")
	total := fs.Uint64("total", 1, "")
	deadline := fs.Int64("deadline", 0, "")
	digests := fs.Bool("digests", false, "")
	idx := fs.Uint64("idx", 0, "run index for show")
	switch cmd {
	case "replay":
		if len(os.Args) < 3 {
			os.Exit(2)
		}
		os.Exit(core.ReplayMain(os.Args[2]))
	}
	fs.Parse(os.Args[2:])
	if t := os.Getenv("VERIF_TIER"); t != "" && cmd == "run" && !flagSet(fs, "tier") {
		*tier = t
	}
	spec := core.Registry[*prop]
	if spec == nil {
		fmt.Fprintf(os.Stderr, "unknown property %q\n", *prop)
		os.Exit(2)
	}
	switch cmd {
	case "run":
		os.Exit(core.RunMain(*prop, *tier, *seed))
	case "worker":
		dl := time.UnixMilli(*deadline)
		if *deadline == 0 {
			dl = time.Now().Add(time.Hour)
		}
		os.Exit(core.WorkerMain(spec, *tier, *seed, *wid, *nw, *total, dl, *digests))
	case "exec":
		os.Exit(core.ExecMain(spec, *tier))
	case "selftest":
		os.Exit(core.SelftestMain(*prop, *tier, *seed, int(*total)))
	case "show":
		// render one run of the live tape
		res := core.SafeRun(spec.New(*tier), core.NewLiveTape(*seed, *idx), true)
		fmt.Println(res.Sample)
		fmt.Printf("sig=%s nontrivial=%v steps=%d digest=%s counters=%v\n", res.Sig, res.NonTrivial, res.Steps, res.Digest, res.Counters)
		if res.Violation != nil {
			fmt.Printf("VIOLATION rule=%s %s\n%s\n", res.Violation.Rule, res.Violation.Msg, res.Violation.Detail)
			os.Exit(1)
		}
	default:
		fmt.Fprintln(os.Stderr, "unknown command", cmd)
		os.Exit(2)
	}
}

func flagSet(fs *flag.FlagSet, name string) bool {
	found := false
	fs.Visit(func(f *flag.Flag) {
		if f.Name == name {
			found = true
		}
	})
	return found
}
