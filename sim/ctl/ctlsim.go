package ctl

import (
	"errors"
	"fmt"
	"os"
	"runtime/debug"
	"sort"
	"strings"

	"github.com/dop251/goja"

	"verif/sim/core"
)

type ctlsim struct {
	prop string
	tier string
}

type intrPayload struct{ k int }

const decInterrupt = 1000

func describe(v goja.Value) string {
	if v == nil || goja.IsUndefined(v) {
		return "undefined"
	}
	if goja.IsNull(v) {
		return "null"
	}
	if o, ok := v.(*goja.Object); ok {
		if o.ClassName() == "Error" {
			if n := o.Get("name"); n != nil {
				return "[Error:" + n.String() + "]"
			}
		}
		return "[Object]"
	}
	return fmt.Sprintf("%T:%v", v.Export(), v.Export())
}

type realRun struct {
	log     []Event
	outcome string
	state   goja.VerifState
	ticks   int64
	panicV  interface{}
}

// runReal executes the printed program on the real goja with the given decision schedule.
func runReal(src string, decide func(k int) int, maxTicks int64) (rr realRun) {
	return runRealLimit(src, decide, maxTicks, 0)
}

// runRealLimit: depthLimit > 0 sets a call-depth limit for main() (a resource-exhaustion fault).
func runRealLimit(src string, decide func(k int) int, maxTicks int64, depthLimit int) (rr realRun) {
	rt := goja.New()
	probes := 0
	var payload *intrPayload
	rt.Set("P", func(call goja.FunctionCall) goja.Value {
		site := int(call.Argument(0).ToInteger())
		rr.log = append(rr.log, Event{Kind: "P", Site: site, Arg: describe(call.Argument(1))})
		k := probes
		probes++
		d := decide(k)
		if d >= decInterrupt {
			payload = &intrPayload{k: k}
			rt.Interrupt(payload)
			return rt.ToValue(0)
		}
		return rt.ToValue(d)
	})
	rt.Set("A", func(call goja.FunctionCall) goja.Value {
		site := int(call.Argument(0).ToInteger())
		rr.log = append(rr.log, Event{Kind: "A", Site: site, Arg: describe(call.Argument(1))})
		return call.Argument(1)
	})
	rt.Set("R", func(call goja.FunctionCall) goja.Value {
		site := int(call.Argument(0).ToInteger())
		res, ok := call.Argument(1).(*goja.Object)
		if !ok {
			rr.log = append(rr.log, Event{Kind: "R", Site: site, Arg: "non-object"})
			return rt.ToValue(-1)
		}
		v, d := res.Get("value"), res.Get("done")
		rr.log = append(rr.log, Event{Kind: "R", Site: site, Arg: fmt.Sprintf("%s,%v", describe(v), d != nil && d.ToBoolean())})
		if v != nil {
			if _, isInt := v.Export().(int64); isInt {
				return v
			}
		}
		return rt.ToValue(-1)
	})
	prev := goja.VerifTick
	goja.VerifTick = func(r *goja.Runtime) {
		if r == rt {
			rr.ticks++
			if rr.ticks > maxTicks {
				if rr.ticks > maxTicks+2000 {
					if os.Getenv("VERIF_DEBUG") != "" {
						fmt.Fprintf(os.Stderr, "AbortRun at tick %d\n", rr.ticks)
					}
					core.AbortRun() // the panic below keeps being swallowed
				}
				panic(tickAbort{})
			}
		}
	}
	defer func() { goja.VerifTick = prev }()
	defer func() {
		if x := recover(); x != nil {
			rr.panicV = x
			if os.Getenv("VERIF_DEBUG") != "" {
				fmt.Fprintf(os.Stderr, "escaped panic: %v\n%s\n", x, debug.Stack())
			}
		}
	}()
	if _, err := rt.RunScript("prog.js", src); err != nil {
		rr.outcome = "SETUP-ERROR: " + err.Error()
		return
	}
	if depthLimit > 0 {
		rt.SetMaxCallStackSize(depthLimit)
	}
	v, err := rt.RunString("main(0)")
	var so *goja.StackOverflowError
	switch {
	case errors.As(err, &so):
		rr.outcome = "stack-overflow"
	case err == nil:
		rr.outcome = "normal:" + describe(v)
	default:
		var ie *goja.InterruptedError
		var ex *goja.Exception
		switch {
		case errors.As(err, &ie):
			if p, ok := ie.Value().(*intrPayload); ok && p == payload {
				rr.outcome = "interrupted"
			} else {
				rr.outcome = fmt.Sprintf("interrupted-with-wrong-value:%v", ie.Value())
			}
		case errors.As(err, &ex):
			rr.outcome = "throw:" + describe(ex.Value())
		default:
			rr.outcome = fmt.Sprintf("error:%T", err)
		}
	}
	rr.state = rt.VerifState()
	return
}

type tickAbort struct{}

type modelRun struct {
	log     []Event
	outcome string
	probes  int
	over    bool
}

func runModel(pr *Program, decide func(k int) int, budget int) modelRun {
	m := &ctlModel{prog: pr, funcs: map[string]*Func{}, globals: map[string]mValue{}, decide: decide, budget: budget}
	for _, f := range pr.Funcs {
		m.funcs[f.Name] = f
	}
	for _, gname := range pr.GVars {
		m.globals[gname] = undef
	}
	main := m.funcs["main"]
	fr := newFrame(main, []mValue{0})
	var c completion
	func() {
		for _, gi := range pr.GInit {
			v, ic := m.eval(fr, gi.E)
			if ic.t != cNormal {
				c = ic
				return
			}
			m.globals[gi.Var] = v
		}
		c = m.execStmts(fr, main.Body)
	}()
	out := ""
	switch c.t {
	case cNormal:
		out = "normal:undefined"
	case cReturn:
		out = "normal:" + mDescribe(c.v)
	case cThrow:
		out = "throw:" + mDescribe(c.v)
	case cFatal:
		out = "interrupted"
	default:
		out = fmt.Sprintf("BAD-COMPLETION:%d", c.t)
	}
	if c.t != cFatal {
		// the outermost call returns: goja drains the job queue; an interrupt inside a job surfaces as the call's error
		if m.drainJobs() {
			out = "interrupted"
		}
	}
	m.killAll()
	return modelRun{log: m.log, outcome: out, probes: m.probes, over: m.over}
}

func (e *ctlsim) Run(t *core.Tape, want bool) *core.Result {
	res := &core.Result{}
	pr, feat := genProgram(&t.W, e.prop)
	// buggify: in a third of the runs the VM's value, try and call stacks move to a fresh backing array on every growth
	// (a stale slice or pointer held across code that grows them is otherwise visible only at power-of-two sizes)
	if t.W.Draw(3) == 2 {
		goja.VerifForceStackRealloc = func() bool { return true }
		defer func() { goja.VerifForceStackRealloc = nil }()
		res.Count("buggify-stack-realloc-runs", 1)
	}
	src := printProgram(pr)
	const budget = 60000

	pilot := runModel(pr, func(int) int { return 0 }, budget)
	if pilot.over {
		res.OutOfScope = "generated program exceeds the model's step budget without any decision"
		return res
	}

	// decision schedule. Decisions are placed ADAPTIVELY: the i-th decision lands on a probe that the run, as steered by
	// the first i-1 decisions, actually reaches after them (the reference interpreter is re-run to learn the new path).
	// Compound scenarios (an exit inside the finally block entered because of an earlier exit, ...) would be very rare
	// with independent uniform positions.
	S := &t.S
	dec := map[int]int{}
	decide := func(k int) int { return dec[k] }
	nd := 1 + S.Draw(4)
	last, reach := -1, pilot.probes
	intr := false
	for i := 0; i < nd; i++ {
		if reach-last-1 <= 0 {
			break
		}
		k := last + 1 + S.Draw(reach-last-1)
		if S.Draw(3) == 0 {
			k = last + 1 + S.Draw(min(reach-last-1, 6)) // soon after the previous decision
		}
		v := 1 + S.Draw(7)
		if i == nd-1 && S.Draw(8) == 7 {
			v = decInterrupt
			intr = true
		}
		dec[k] = v
		last = k
		if i < nd-1 {
			probe := runModel(pr, decide, budget)
			if probe.over {
				res.OutOfScope = "model step budget exceeded under the decision schedule"
				return res
			}
			reach = probe.probes
		}
	}

	mr := runModel(pr, decide, budget)
	if mr.over {
		res.OutOfScope = "model step budget exceeded under the decision schedule"
		return res
	}
	rr := runReal(src, decide, 3000000)

	var keys []int
	for k := range dec {
		keys = append(keys, k)
	}
	sort.Ints(keys)
	var ds []string
	for _, k := range keys {
		if dec[k] >= decInterrupt {
			ds = append(ds, fmt.Sprintf("probe#%d:INTERRUPT", k))
		} else {
			ds = append(ds, fmt.Sprintf("probe#%d:%d", k, dec[k]))
		}
	}
	render := func() string {
		return fmt.Sprintf("// decision schedule (k-th probe call -> value returned by P): %s\n%s\n// model : %s  => %s\n// goja  : %s  => %s\n",
			strings.Join(ds, " "), strings.TrimPrefix(src, ctlHelpers), renderLog(mr.log), mr.outcome, renderLog(rr.log), rr.outcome)
	}

	res.Steps = rr.ticks + int64(len(rr.log))
	nontrivialDecisions := 0
	for k, v := range dec {
		if k < len(mr.log) || true {
			if k < mr.probes && v%8 != 0 {
				nontrivialDecisions++
			}
		}
	}
	for f, n := range feat {
		res.Count("feature."+f, int64(n))
	}
	if intr {
		if mr.outcome == "interrupted" {
			res.Count("fault.interrupt", 1)
		}
	}
	res.Count("decisions-taken", int64(nontrivialDecisions))

	fail := func(rule, msg string) {
		res.Fail(rule, rule+" "+e.prop, msg, render())
	}
	switch {
	case rr.panicV != nil:
		if _, ok := rr.panicV.(tickAbort); ok {
			fail("nontermination", "the program did not finish within the instruction budget on goja although the reference interpreter finished")
		} else {
			fail("go-panic", fmt.Sprintf("a Go panic escaped from goja: %v", rr.panicV))
		}
	case strings.HasPrefix(rr.outcome, "SETUP-ERROR"):
		res.OutOfScope = rr.outcome
		return res
	default:
		if d := firstDivergence(rr.log, mr.log); d >= 0 {
			fail("event-log-mismatch", fmt.Sprintf("event #%d: goja %s, reference interpreter %s", d, evAt(rr.log, d), evAt(mr.log, d)))
		} else if rr.outcome != mr.outcome {
			fail("completion-mismatch", fmt.Sprintf("goja completes with %s, the reference interpreter with %s", rr.outcome, mr.outcome))
		} else if s := rr.state; s.CallStack != 0 || s.TryStack != 0 || s.IterStack != 0 || s.RefStack != 0 || s.Sp != 0 || s.JobQueue != 0 || s.Interrupted {
			fail("idle-invariant", fmt.Sprintf("runtime not idle-clean after main() returned: %+v", s))
		}
	}

	// resource-exhaustion fault: the same run under a call-depth limit. A stack overflow is uncatchable: what the run
	// logged must be a prefix of what it logs without the limit (no catch, finally or iterator return() ran because of it).
	if res.Violation == nil && S.Draw(8) == 7 {
		limit := 1 + S.Draw(12)
		rl := runRealLimit(src, decide, 3000000, limit)
		switch {
		case rl.panicV != nil:
			fail("go-panic", fmt.Sprintf("a Go panic escaped from goja under call-depth limit %d: %v", limit, rl.panicV))
		case rl.outcome == "stack-overflow":
			res.Count("fault.depth-limit", 1)
			for i := range rl.log {
				if i >= len(rr.log) || rl.log[i] != rr.log[i] {
					fail("stack-overflow-observed-by-script", fmt.Sprintf("under call-depth limit %d event #%d is %s, the run without the limit has %s there: script code ran because of the stack overflow", limit, i, evAt(rl.log, i), evAt(rr.log, i)))
					break
				}
			}
			if s := rl.state; res.Violation == nil && (s.CallStack != 0 || s.TryStack != 0 || s.IterStack != 0 || s.RefStack != 0 || s.Sp != 0 || s.JobQueue != 0) {
				fail("idle-invariant", fmt.Sprintf("runtime not idle-clean after a stack overflow (limit %d): %+v", limit, s))
			}
		default:
			if firstDivergence(rl.log, rr.log) >= 0 || rl.outcome != rr.outcome {
				fail("depth-limit-not-reached-but-differs", fmt.Sprintf("call-depth limit %d was not hit, yet the run differs from the run without a limit (%s vs %s)", limit, rl.outcome, rr.outcome))
			}
		}
	}

	// signature: which features the program has and which kinds of decisions were taken
	var fs []string
	for f := range feat {
		fs = append(fs, f)
	}
	sort.Strings(fs)
	res.Sig = fmt.Sprintf("%s|%s|%s", strings.Join(fs, ","), strings.Join(ds, ","), mr.outcome)
	res.NonTrivial = nontrivialDecisions > 0 && mr.outcome != "" && len(mr.log) > 3
	res.Digest = core.DigestLines([]string{renderLog(rr.log), rr.outcome, renderLog(mr.log), mr.outcome})
	if want {
		res.Sample = render()
	}
	return res
}

func init() {
	real := []string{"goja parser", "goja compiler", "goja VM", "all goja built-ins (iteration protocol, generators, promises)"}
	stub := []string{"host natives P/A/R (probes, markers, driver-result loggers)", "the decision schedule returned by P", "the interrupting watchdog (rt.Interrupt raised inside a probe)"}
	core.Register(&core.Spec{
		Property: "C08", EngineName: "ctlsim",
		New:       func(tier string) core.Engine { return &ctlsim{prop: "C08", tier: tier} },
		QuickRuns: 60000, QuickCapS: 75, ThoroughRun: 4000000, ThoroughCap: 1500,
		Rule: "a case = (program from the control-flow skeleton grammar: try/catch/finally, labelled for/while/do-while/for-in/for-of, switch, labelled blocks, destructuring, spread, yield*, generators, instrumented iterators whose next/return/throw are probes; every block head is an exit point listing every legal throw/return/break L/continue L) x (decision schedule: which exit fires at which dynamic visit, what each iterator method does, optionally an interrupt); distinct = distinct (feature set, decision schedule, outcome); non-trivial = at least one non-zero decision was consumed by the run and the log has more than three events",
		Real: real, Stub: stub,
		Assumptions: []string{
			"the reference interpreter (sim/ctl/model.go, exec.go) is a correct transcription of ECMA-262 for the skeleton language; it was calibrated on the unchanged tree, every mismatch triaged against the specification text",
			"statement completion values (UpdateEmpty) are not compared, only event logs, function results and exceptions",
			"Error objects are compared by constructor name only",
		},
		FaultKinds: []string{"interrupt", "depth-limit"},
	})
	core.Register(&core.Spec{
		Property: "C09", EngineName: "ctlsim",
		New:       func(tier string) core.Engine { return &ctlsim{prop: "C09", tier: tier} },
		QuickRuns: 60000, QuickCapS: 75, ThoroughRun: 4000000, ThoroughCap: 1500,
		Rule: "a case = (1-3 generator functions and up to 3 async functions from the skeleton grammar with yields/awaits in operand, argument, spread, template and destructuring-default positions, inside try/catch/finally and loops; generator objects in globals driven by next(v)/throw(e)/return(v) from main, from other generator bodies and from their own body, by for-of, spread, destructuring and yield*) x (decision schedule as for C08); distinct/non-trivial as for C08",
		Real: real, Stub: stub,
		Assumptions: []string{
			"the reference interpreter runs each generator/async activation as a coroutine (strict hand-off, deterministic) and implements the specification's generator state machine and a FIFO job queue for async functions over ints and native promises",
			"async function* and for-await are not supported by goja's parser and are excluded",
		},
		FaultKinds: []string{"interrupt", "depth-limit"},
	})
}
