package ctl

import "fmt"

func (m *ctlModel) lookup(fr *mFrame, name string) mValue {
	if v, ok := fr.locals[name]; ok {
		return v
	}
	if v, ok := m.globals[name]; ok {
		return v
	}
	return undef
}

func (m *ctlModel) assign(fr *mFrame, name string, v mValue) {
	if _, ok := m.globals[name]; ok {
		m.globals[name] = v
		return
	}
	fr.locals[name] = v
}

func (m *ctlModel) execStmts(fr *mFrame, ss []Stmt) completion {
	for _, s := range ss {
		if c := m.execStmt(fr, s); c.t != cNormal {
			return c
		}
	}
	return normalC
}

func abruptExpr(c completion) bool { return c.t != cNormal }

func (m *ctlModel) execStmt(fr *mFrame, s Stmt) completion {
	if m.tick() {
		return completion{t: cFatal}
	}
	switch s := s.(type) {
	case *SExit:
		d, fatal := m.probe(s.Site, "undefined")
		if fatal {
			return completion{t: cFatal}
		}
		if len(s.Exits) == 0 {
			return normalC
		}
		k := d % (len(s.Exits) + 1)
		if k == 0 {
			return normalC
		}
		x := s.Exits[k-1]
		switch x.Kind {
		case xThrow:
			return throwC(x.Val)
		case xBreak:
			return completion{t: cBreak, label: x.Label}
		case xContinue:
			return completion{t: cContinue, label: x.Label}
		default:
			return completion{t: cReturn, v: x.Val}
		}
	case *SExpr:
		_, c := m.eval(fr, s.E)
		return c
	case *SAssign:
		v, c := m.eval(fr, s.E)
		if abruptExpr(c) {
			return c
		}
		m.assign(fr, s.Var, v)
		return normalC
	case *STry:
		c := m.execStmts(fr, s.Body)
		if c.t == cThrow && s.HasCatch {
			fr.locals[s.CatchVar] = c.v
			m.logEv("A", s.CatchSite, mDescribe(c.v))
			c = m.execStmts(fr, s.Catch)
		}
		if c.t == cFatal {
			return c
		}
		if s.HasFinally {
			f := m.execStmts(fr, s.Finally)
			if f.t != cNormal {
				return f
			}
		}
		return c
	case *SFor:
		m.assign(fr, s.Var, 0)
		for {
			if mNorm(m.lookup(fr, s.Var)) >= s.N {
				return normalC
			}
			c := m.execStmts(fr, s.Body)
			if stop, out := loopExit(c, s.Label); stop {
				return out
			}
			m.assign(fr, s.Var, mNorm(m.lookup(fr, s.Var))+1)
			if m.tick() {
				return completion{t: cFatal}
			}
		}
	case *SWhile:
		m.assign(fr, s.Var, 0)
		for {
			if !s.Do {
				v := mNorm(m.lookup(fr, s.Var))
				m.assign(fr, s.Var, v+1)
				if !(v < s.N) {
					return normalC
				}
			}
			c := m.execStmts(fr, s.Body)
			if stop, out := loopExit(c, s.Label); stop {
				return out
			}
			if s.Do {
				v := mNorm(m.lookup(fr, s.Var)) + 1
				m.assign(fr, s.Var, v)
				if !(v < s.N) {
					return normalC
				}
			}
			if m.tick() {
				return completion{t: cFatal}
			}
		}
	case *SForIn:
		for i := 0; i < s.N; i++ {
			c := m.execStmts(fr, s.Body)
			if stop, out := loopExit(c, s.Label); stop {
				return out
			}
		}
		return normalC
	case *SForOf:
		iterable, c := m.eval(fr, s.Iter)
		if abruptExpr(c) {
			return c
		}
		rec, c := m.getIterator(iterable)
		if c.t != cNormal {
			return c
		}
		for {
			v, done, c := m.iteratorStep(rec)
			if c.t != cNormal {
				return c
			}
			if done {
				return normalC
			}
			m.assign(fr, s.Var, v)
			bc := m.execStmts(fr, s.Body)
			if stop, out := loopExit(bc, s.Label); stop {
				// the loop is left: close the iterator with the completion that leaves it
				if bc.t == cFatal {
					return bc
				}
				cc := m.iteratorClose(rec, bc)
				if cc.t == cFatal {
					return cc
				}
				if cc.t != bc.t || cc.v != bc.v || cc.label != bc.label {
					return cc // return() threw or returned a non-object (unless the original was a throw)
				}
				return out
			}
			if m.tick() {
				return completion{t: cFatal}
			}
		}
	case *SBlock:
		c := m.execStmts(fr, s.Body)
		if c.t == cBreak && c.label == s.Label {
			return normalC
		}
		return c
	case *SSwitch:
		d, c := m.eval(fr, s.Disc)
		if abruptExpr(c) {
			return c
		}
		dv := mNorm(d)
		start := -1
		for i, cs := range s.Cases {
			if !cs.IsDefault && cs.Val == dv {
				start = i
				break
			}
		}
		if start < 0 {
			for i, cs := range s.Cases {
				if cs.IsDefault {
					start = i
				}
			}
		}
		if start < 0 {
			return normalC
		}
		for i := start; i < len(s.Cases); i++ {
			c := m.execStmts(fr, s.Cases[i].Body)
			if c.t == cBreak && (c.label == s.Label || c.label == "") {
				return normalC
			}
			if c.t != cNormal {
				return c
			}
		}
		return normalC
	case *SIf:
		v, c := m.eval(fr, s.Cond)
		if abruptExpr(c) {
			return c
		}
		if mTruthy(v) {
			return m.execStmts(fr, s.Then)
		}
		return m.execStmts(fr, s.Else)
	case *SBranch:
		if s.Kind == xContinue {
			return completion{t: cContinue, label: s.Label}
		}
		return completion{t: cBreak, label: s.Label}
	case *SReturn:
		v, c := m.eval(fr, s.E)
		if abruptExpr(c) {
			return c
		}
		return completion{t: cReturn, v: v}
	case *SThrow:
		v, c := m.eval(fr, s.E)
		if abruptExpr(c) {
			return c
		}
		return throwC(v)
	case *SDestruct:
		return m.execDestruct(fr, s)
	}
	panic(fmt.Sprintf("model: unknown stmt %T", s))
}

// loopExit: given a body completion, does the loop stop, and with which completion does the loop statement complete?
func loopExit(c completion, label string) (bool, completion) {
	switch c.t {
	case cNormal:
		return false, normalC
	case cContinue:
		if c.label == label || c.label == "" { // an unlabelled continue targets the nearest enclosing loop
			return false, normalC
		}
		return true, c
	case cBreak:
		if c.label == label || c.label == "" { // an unlabelled break targets the nearest enclosing loop or switch
			return true, normalC
		}
		return true, c
	}
	return true, c
}

// execDestruct: [A, B = Def, ...Rest] = Iter  (IteratorBindingInitialization / destructuring assignment evaluation)
func (m *ctlModel) execDestruct(fr *mFrame, s *SDestruct) completion {
	iterable, c := m.eval(fr, s.Iter)
	if abruptExpr(c) {
		return c
	}
	rec, c := m.getIterator(iterable)
	if c.t != cNormal {
		return c
	}
	step := func() (mValue, completion) {
		if rec.done {
			return undef, normalC
		}
		v, done, c := m.iteratorStep(rec)
		if c.t != cNormal {
			return nil, c
		}
		if done {
			return undef, normalC
		}
		return v, normalC
	}
	res := func() completion {
		if s.A != "" {
			v, c := step()
			if c.t != cNormal {
				return c
			}
			m.assign(fr, s.A, v)
		}
		if s.B != "" {
			v, c := step()
			if c.t != cNormal {
				return c
			}
			if _, isU := v.(mUndef); isU && s.Def != nil {
				dv, dc := m.eval(fr, s.Def)
				if abruptExpr(dc) {
					return dc
				}
				v = dv
			}
			m.assign(fr, s.B, v)
		}
		if s.Rest != "" {
			n := 0
			for !rec.done {
				_, done, c := m.iteratorStep(rec)
				if c.t != cNormal {
					return c
				}
				if done {
					break
				}
				n++
				if m.tick() {
					return completion{t: cFatal}
				}
			}
			m.assign(fr, s.Rest, n)
		}
		return normalC
	}()
	if res.t == cFatal {
		return res
	}
	if !rec.done {
		res = m.iteratorClose(rec, res)
	}
	if res.t != cNormal {
		return res
	}
	// the printed form normalises the bound variables afterwards
	if s.A != "" {
		m.assign(fr, s.A, mNorm(m.lookup(fr, s.A)))
	}
	if s.B != "" {
		m.assign(fr, s.B, mNorm(m.lookup(fr, s.B)))
	}
	return normalC
}

func (m *ctlModel) evalArgs(fr *mFrame, es []Expr) ([]mValue, completion) {
	var out []mValue
	for _, e := range es {
		v, c := m.eval(fr, e)
		if abruptExpr(c) {
			return nil, c
		}
		out = append(out, v)
	}
	return out, normalC
}

// eval returns the value and a completion that is normal, or abrupt (throw / fatal / return - the latter only from a
// yield resumed by generator.return()).
func (m *ctlModel) eval(fr *mFrame, e Expr) (mValue, completion) {
	if m.tick() {
		return nil, completion{t: cFatal}
	}
	switch e := e.(type) {
	case *ENum:
		return e.N, normalC
	case *EVar:
		return m.lookup(fr, e.Name), normalC
	case *EGVar:
		return m.globals[e.Name], normalC
	case *EMark:
		v, c := m.eval(fr, e.E)
		if abruptExpr(c) {
			return nil, c
		}
		m.logEv("A", e.Site, mDescribe(v))
		return v, normalC
	case *EProbe:
		d, fatal := m.probe(e.Site, "undefined")
		if fatal {
			return nil, completion{t: cFatal}
		}
		return d, normalC
	case *EAdd:
		l, c := m.eval(fr, e.L)
		if abruptExpr(c) {
			return nil, c
		}
		r, c := m.eval(fr, e.R)
		if abruptExpr(c) {
			return nil, c
		}
		return mNorm(l) + mNorm(r), normalC
	case *ECond:
		cv, c := m.eval(fr, e.C)
		if abruptExpr(c) {
			return nil, c
		}
		if mTruthy(cv) {
			return m.eval(fr, e.T)
		}
		return m.eval(fr, e.F)
	case *EAnd:
		l, c := m.eval(fr, e.L)
		if abruptExpr(c) {
			return nil, c
		}
		if !mTruthy(l) {
			return l, normalC
		}
		return m.eval(fr, e.R)
	case *EOr:
		l, c := m.eval(fr, e.L)
		if abruptExpr(c) {
			return nil, c
		}
		if mTruthy(l) {
			return l, normalC
		}
		return m.eval(fr, e.R)
	case *ECall:
		args, c := m.evalArgs(fr, e.Args)
		if abruptExpr(c) {
			return nil, c
		}
		fn := m.funcs[e.Fn]
		nf := newFrame(fn, args)
		rc := m.execStmts(nf, fn.Body)
		switch rc.t {
		case cReturn:
			return rc.v, normalC
		case cNormal:
			return undef, normalC
		}
		return nil, rc
	case *ESpreadLen:
		n := 0
		if e.Pre != nil {
			if _, c := m.eval(fr, e.Pre); abruptExpr(c) {
				return nil, c
			}
			n++
		}
		iterable, c := m.eval(fr, e.Iter)
		if abruptExpr(c) {
			return nil, c
		}
		rec, c := m.getIterator(iterable)
		if c.t != cNormal {
			return nil, c
		}
		for {
			_, done, c := m.iteratorStep(rec)
			if c.t != cNormal {
				return nil, c
			}
			if done {
				return n, normalC
			}
			n++
			if m.tick() {
				return nil, completion{t: cFatal}
			}
		}
	case *EArrayFrom, *ESetSize, *EMapSize:
		return m.evalConsume(fr, e)
	case *EObjLit:
		av, c := m.eval(fr, e.A)
		if abruptExpr(c) {
			return nil, c
		}
		bv, c := m.eval(fr, e.B)
		if abruptExpr(c) {
			return nil, c
		}
		return mNorm(av) + mNorm(bv), normalC
	case *EArrLit:
		if _, c := m.eval(fr, e.A); abruptExpr(c) {
			return nil, c
		}
		return m.eval(fr, e.B)
	case *EPropSet:
		return m.eval(fr, e.E)
	case *ECompound:
		old := mNorm(m.lookup(fr, e.Var))
		v, c := m.eval(fr, e.E)
		if abruptExpr(c) {
			return nil, c
		}
		nv := old + mNorm(v)
		m.assign(fr, e.Var, nv)
		return nv, normalC
	case *ETemplate:
		l := 0
		for i, p := range e.Parts {
			v, c := m.eval(fr, p)
			if abruptExpr(c) {
				return nil, c
			}
			l += len(fmt.Sprint(mNorm(v)))
			if i > 0 {
				l++
			}
		}
		return l, normalC
	case *EIt:
		if e.Wrap {
			return &mIb{site: e.Site, n: e.N, flags: e.Flags, drv: e.Drv}, normalC
		}
		return &mIt{site: e.Site, n: e.N, flags: e.Flags}, normalC
	case *EArr:
		vals, c := m.evalArgs(fr, e.Elems)
		if abruptExpr(c) {
			return nil, c
		}
		return &mArr{elems: vals}, normalC
	case *EGenCall:
		args, c := m.evalArgs(fr, e.Args)
		if abruptExpr(c) {
			return nil, c
		}
		return m.newGen(m.funcs[e.Fn], args), normalC
	case *EYield:
		v, c := m.eval(fr, e.E)
		if abruptExpr(c) {
			return nil, c
		}
		rv, rc := m.yield(fr, v, false)
		if rc.t != cNormal {
			return nil, rc
		}
		return mNorm(rv), normalC
	case *EYieldStar:
		v, c := m.evalYieldStar(fr, e)
		if c.t != cNormal {
			return nil, c
		}
		return mNorm(v), normalC
	case *EDrive:
		g, _ := m.globals[e.Gen].(*mGen)
		arg, c := m.eval(fr, e.Arg)
		if abruptExpr(c) {
			return nil, c
		}
		var r mValue
		switch e.Op {
		case dNext:
			r, c = m.genResume(g, resumeMsg{kind: cNormal, v: arg})
		case dThrow:
			r, c = m.genResume(g, resumeMsg{kind: cThrow, v: arg})
		default:
			r, c = m.genResume(g, resumeMsg{kind: cReturn, v: arg})
		}
		if c.t != cNormal {
			return nil, c
		}
		// R(site, result): logs value and done, returns N(value). A generator's own results are always iterator result
		// objects except when a yield* passes a delegate's non-conforming result through (not generated).
		res, ok := r.(*mIterRes)
		if !ok {
			m.logEv("R", e.Site, "non-object")
			return -1, normalC
		}
		rv := m.resValue(res) // the R helper reads 'value', then 'done'
		rd := m.resDone(res)
		m.logEv("R", e.Site, fmt.Sprintf("%s,%v", mDescribe(rv), rd))
		return mNorm(rv), normalC
	case *EAwait:
		v, c := m.eval(fr, e.E)
		if abruptExpr(c) {
			return nil, c
		}
		if p, ok := v.(*mPromise); ok && e.Tamper == 1 {
			p.tampered = true
		}
		if _, ok := v.(*mPromise); ok && e.Tamper == 2 {
			// PromiseResolve(%Promise%, p) reads p.constructor, whose getter throws: the await expression throws
			return nil, throwC(e.TamperVal)
		}
		rv, rc := m.await(fr, v)
		if rc.t != cNormal {
			return nil, rc
		}
		return mNorm(rv), normalC
	case *EAsyncStart:
		args, c := m.evalArgs(fr, e.Args)
		if abruptExpr(c) {
			return nil, c
		}
		p, sc := m.startAsync(m.funcs[e.Fn], args)
		if sc.t != cNormal {
			return nil, sc
		}
		return p, normalC
	case *EAsyncCall:
		args, c := m.evalArgs(fr, e.Args)
		if abruptExpr(c) {
			return nil, c
		}
		p, sc := m.startAsync(m.funcs[e.Fn], args)
		if sc.t != cNormal {
			return nil, sc
		}
		site := e.Site
		m.then(p, func(state int, v mValue) {
			if state == 1 {
				m.logEv("A", site, mDescribe(v))
			} else {
				m.logEv("A", site+1, mDescribe(v))
			}
		})
		return 0, normalC
	}
	panic(fmt.Sprintf("model: unknown expr %T", e))
}

// evalYieldStar: 14.4.14 yield* (synchronous generators)
func (m *ctlModel) evalYieldStar(fr *mFrame, e *EYieldStar) (mValue, completion) {
	iterable, c := m.eval(fr, e.Iter)
	if abruptExpr(c) {
		return nil, c
	}
	rec, c := m.getIterator(iterable)
	if c.t != cNormal {
		return nil, c
	}
	it := rec.obj
	received := completion{t: cNormal, v: undef}
	for {
		if m.tick() {
			return nil, completion{t: cFatal}
		}
		var inner mValue
		switch received.t {
		case cNormal:
			inner, c = m.callNext(it, received.v)
			if c.t != cNormal {
				return nil, c
			}
			res, ok := inner.(*mIterRes)
			if !ok {
				return nil, mTypeErr()
			}
			if m.resDone(res) {
				return m.resValue(res), normalC
			}
		case cThrow:
			if hasThrow(it) {
				inner, c = m.callThrow(it, received.v)
				if c.t != cNormal {
					return nil, c
				}
				res, ok := inner.(*mIterRes)
				if !ok {
					return nil, mTypeErr()
				}
				if m.resDone(res) {
					return m.resValue(res), normalC
				}
			} else {
				// close the iterator, then throw a TypeError (the protocol violation)
				cc := m.iteratorClose(rec, normalC)
				if cc.t != cNormal {
					return nil, cc
				}
				return nil, mTypeErr()
			}
		case cReturn:
			if !hasReturn(it) {
				return nil, received
			}
			inner, c = m.callReturn(it, received.v)
			if c.t != cNormal {
				return nil, c
			}
			res, ok := inner.(*mIterRes)
			if !ok {
				return nil, mTypeErr()
			}
			if m.resDone(res) {
				return nil, completion{t: cReturn, v: m.resValue(res)}
			}
		}
		// GeneratorYield(innerResult): the inner result object is handed to the driver as is
		rv, rc := m.yield(fr, inner, true)
		switch rc.t {
		case cNormal:
			received = completion{t: cNormal, v: rv}
		case cThrow, cReturn:
			received = rc
		default:
			return nil, rc
		}
	}
}

// evalConsume: Array.from(iter[, fn]).length, new Set(iter).size, new Map(iter).size - built-ins that iterate and
// close the iterator when a step of their own fails (IfAbruptCloseIterator).
func (m *ctlModel) evalConsume(fr *mFrame, e Expr) (mValue, completion) {
	var iterE Expr
	fn := ""
	kind := 0
	switch e := e.(type) {
	case *EArrayFrom:
		iterE, fn, kind = e.Iter, e.Fn, 0
	case *ESetSize:
		iterE, kind = e.Iter, 1
	case *EMapSize:
		iterE, kind = e.Iter, 2
	}
	iterable, c := m.eval(fr, iterE)
	if abruptExpr(c) {
		return nil, c
	}
	rec, c := m.getIterator(iterable)
	if c.t != cNormal {
		return nil, c
	}
	n := 0
	seen := map[string]bool{}
	for {
		v, done, c := m.iteratorStep(rec)
		if c.t != cNormal {
			return nil, c
		}
		if done {
			if kind == 1 {
				return len(seen), normalC
			}
			return n, normalC
		}
		switch kind {
		case 0:
			if fn != "" {
				f := m.funcs[fn]
				rc := m.execStmts(newFrame(f, []mValue{v, n}), f.Body)
				if rc.t == cThrow || rc.t == cFatal {
					return nil, m.iteratorClose(rec, rc)
				}
			}
		case 1:
			seen[mDescribe(v)] = true
		case 2:
			// the item is not an entry object
			return nil, m.iteratorClose(rec, mTypeErr())
		}
		n++
		if m.tick() {
			return nil, completion{t: cFatal}
		}
	}
}
