package ctl

import (
	"fmt"

	"verif/sim/core"
)

type lblInfo struct {
	name     string
	isLoop   bool
	isSwitch bool
}

type pgen struct {
	t      *core.Track
	site   int
	uniq   int
	budget int
	mode   string // "C08" or "C09"

	fn      *Func
	labels  []lblInfo
	scratch []string // int-valued scratch variables of the current function

	plain  []*Func
	gens   []*Func
	asyncs []*Func
	gvars  []string

	feat map[string]int
}

func (g *pgen) ns() int { g.site += 4; return g.site } // sites are spaced: an iterator uses site, site+1, site+2
func (g *pgen) use(f string) {
	g.feat[f]++
}
func (g *pgen) newVar(prefix string) string {
	g.uniq++
	v := fmt.Sprintf("%s%d", prefix, g.uniq)
	g.fn.Locals = append(g.fn.Locals, v)
	return v
}
func (g *pgen) newLabel() string {
	g.uniq++
	return fmt.Sprintf("L%d", g.uniq)
}

func (g *pgen) exitPoint() *SExit {
	x := &SExit{Site: g.ns()}
	x.Exits = append(x.Exits, Exit{Kind: xThrow, Val: 1000 + x.Site})
	x.Exits = append(x.Exits, Exit{Kind: xReturn, Val: 2000 + x.Site})
	// unlabelled break / continue: target the nearest enclosing loop (or switch, for break)
	ub, uc := false, false
	for i := len(g.labels) - 1; i >= 0; i-- {
		l := g.labels[i]
		if !ub && (l.isLoop || l.isSwitch) {
			x.Exits = append(x.Exits, Exit{Kind: xBreak})
			ub = true
		}
		if !uc && l.isLoop {
			x.Exits = append(x.Exits, Exit{Kind: xContinue})
			uc = true
		}
	}
	// innermost labels first; at most 3 of each kind to keep the modulus small
	nb, nc := 0, 0
	for i := len(g.labels) - 1; i >= 0; i-- {
		l := g.labels[i]
		if nb < 3 {
			x.Exits = append(x.Exits, Exit{Kind: xBreak, Label: l.name})
			nb++
		}
		if l.isLoop && nc < 2 {
			x.Exits = append(x.Exits, Exit{Kind: xContinue, Label: l.name})
			nc++
		}
	}
	return x
}

// exitPointIn is an exit point for a hand-built loop body (labels of the enclosing statements are not on the stack)
func (g *pgen) exitPointIn() *SExit {
	x := &SExit{Site: g.ns()}
	x.Exits = append(x.Exits, Exit{Kind: xThrow, Val: 1000 + x.Site}, Exit{Kind: xReturn, Val: 2000 + x.Site}, Exit{Kind: xBreak}, Exit{Kind: xContinue})
	return x
}

func (g *pgen) block(d int) []Stmt {
	out := []Stmt{g.exitPoint()}
	n := 1 + g.t.Draw(3)
	for i := 0; i < n; i++ {
		out = append(out, g.stmt(d))
	}
	if g.t.Draw(6) == 5 {
		// an UNCONDITIONAL abrupt statement ends the block: the compiler analyses such blocks specially
		// (dead code after them, 'finally' blocks that always break, result registers)
		ex := g.exitPoint().Exits
		g.site -= 4 // the exit point itself is not emitted
		x := ex[g.t.Draw(len(ex))]
		g.use("unconditional-abrupt-statement")
		switch x.Kind {
		case xThrow:
			out = append(out, &SThrow{E: &ENum{N: x.Val}})
		case xReturn:
			out = append(out, &SReturn{E: &ENum{N: x.Val}})
		default:
			out = append(out, &SBranch{Kind: x.Kind, Label: x.Label})
		}
	}
	return out
}

func (g *pgen) withLabel(l lblInfo, f func()) {
	g.labels = append(g.labels, l)
	f()
	g.labels = g.labels[:len(g.labels)-1]
}

func (g *pgen) scratchVar() string { return g.scratch[g.t.Draw(len(g.scratch))] }

// iterable expression
func (g *pgen) iterable(d int) Expr {
	k := g.t.Draw(10)
	if k >= 8 && !(len(g.gvars) > 0) {
		k -= 8
	}
	if k >= 5 && k <= 7 && len(g.gens) == 0 {
		k -= 5
	}
	switch {
	case k <= 2:
		g.use("instrumented-iterator")
		it := &EIt{Site: g.ns(), N: 1 + g.t.Draw(3), Flags: 3 - g.t.Draw(4)} // 0 (= flags 3: return+throw) is the common case
		if g.t.Draw(4) == 0 {
			g.use("iterable-with-instrumented-Symbol.iterator")
			it.Wrap = true
			if len(g.gvars) > 0 && g.t.Draw(2) == 0 {
				it.Drv = &EDrive{Site: g.ns(), Gen: g.gvars[g.t.Draw(len(g.gvars))], Op: g.t.Draw(3), Arg: &ENum{N: 0}}
			}
		}
		if g.t.Draw(4) == 0 {
			// the iterator's result objects have accessors for 'done' and 'value': which consumer reads what, and when,
			// becomes part of the event log (for-of / destructuring / built-ins: done, then value unless done; yield*:
			// done, value only of the final result, intermediate results are handed to the outer consumer untouched)
			g.use("iterator-results-with-accessors")
			it.Flags |= 4
		}
		return it
	case k <= 4:
		g.use("array-iterable")
		var es []Expr
		for i, n := 0, g.t.Draw(4); i < n; i++ {
			es = append(es, g.expr(d-1))
		}
		return &EArr{Elems: es}
	case k <= 7:
		g.use("generator-call-iterable")
		f := g.gens[g.t.Draw(len(g.gens))]
		return &EGenCall{Fn: f.Name, Args: []Expr{g.expr(d - 1)}}
	default:
		g.use("generator-object-iterable")
		return &EGVar{Name: g.gvars[g.t.Draw(len(g.gvars))]}
	}
}

func (g *pgen) leafExpr() Expr {
	switch g.t.Draw(4) {
	case 0:
		return &ENum{N: g.t.Draw(5)}
	case 1:
		return &EVar{Name: g.scratchVar()}
	case 2:
		return &EMark{Site: g.ns(), E: &ENum{N: 1 + g.t.Draw(9)}}
	default:
		return &EVar{Name: "p"}
	}
}

func (g *pgen) expr(d int) Expr {
	g.budget--
	if d <= 0 || g.budget <= 0 {
		return g.leafExpr()
	}
	n := 10
	if g.fn.Kind == fGen {
		n = 13
	}
	if g.fn.Kind == fAsync {
		n = 12
	}
	if len(g.gvars) > 0 {
		n += 3
	}
	k := g.t.Draw(n)
	switch {
	case k == 0, k == 1:
		return g.leafExpr()
	case k == 2:
		return &EMark{Site: g.ns(), E: g.expr(d - 1)}
	case k == 3:
		return &EAdd{L: g.expr(d - 1), R: g.expr(d - 1)}
	case k == 4:
		g.use("conditional-expr")
		return &ECond{C: &EProbe{Site: g.ns()}, T: g.expr(d - 1), F: g.expr(d - 1)}
	case k == 5:
		g.use("logical-expr")
		if g.t.Draw(2) == 0 {
			return &EAnd{L: g.expr(d - 1), R: g.expr(d - 1)}
		}
		return &EOr{L: g.expr(d - 1), R: g.expr(d - 1)}
	case k == 6:
		if len(g.plain) == 0 {
			return g.leafExpr()
		}
		g.use("function-call")
		f := g.plain[g.t.Draw(len(g.plain))]
		return &ECall{Fn: f.Name, Args: []Expr{g.expr(d - 1)}}
	case k == 7 && g.t.Draw(2) == 1:
		switch g.t.Draw(3) {
		case 0:
			g.use("Array.from")
			e := &EArrayFrom{Iter: g.iterable(d)}
			if len(g.plain) > 0 && g.t.Draw(3) != 0 {
				e.Fn = g.plain[g.t.Draw(len(g.plain))].Name
				g.use("Array.from-mapfn")
			}
			return e
		case 1:
			g.use("new-Set(iterable)")
			return &ESetSize{Iter: g.iterable(d)}
		default:
			g.use("new-Map(iterable)")
			return &EMapSize{Iter: g.iterable(d)}
		}
	case k == 7:
		g.use("spread")
		e := &ESpreadLen{Iter: g.iterable(d)}
		if g.t.Draw(2) == 1 {
			e.Pre = g.expr(d - 1)
		}
		return e
	case k == 8 && g.t.Draw(2) == 1:
		switch g.t.Draw(4) {
		case 0:
			g.use("object-literal-operands")
			return &EObjLit{A: g.expr(d - 1), B: g.expr(d - 1)}
		case 1:
			g.use("array-literal-operands")
			return &EArrLit{A: g.expr(d - 1), B: g.expr(d - 1)}
		case 2:
			g.use("property-assignment-rhs")
			return &EPropSet{E: g.expr(d - 1)}
		default:
			g.use("compound-assignment-rhs")
			return &ECompound{Var: g.scratchVar(), E: g.expr(d - 1)}
		}
	case k == 8:
		g.use("template-literal")
		return &ETemplate{Parts: []Expr{g.expr(d - 1), g.expr(d - 1)}}
	case k == 9:
		return &EProbe{Site: g.ns()}
	}
	// kind-specific
	if g.fn.Kind == fGen && k >= 10 && k <= 12 {
		if k == 12 {
			g.use("yield-star")
			return &EYieldStar{Iter: g.iterable(d)}
		}
		g.use("yield-in-operand")
		return &EYield{E: g.expr(d - 1)}
	}
	if g.fn.Kind == fAsync && k >= 10 && k <= 11 {
		g.use("await")
		if k == 11 && len(g.asyncs) > 0 {
			f := g.asyncs[g.t.Draw(len(g.asyncs))]
			g.use("await-async-call")
			aw := &EAwait{E: &EAsyncStart{Fn: f.Name, Args: []Expr{g.expr(d - 1)}}}
			switch g.t.Draw(4) {
			case 2:
				g.use("await-promise-with-foreign-constructor")
				aw.Tamper = 1
			case 3:
				g.use("await-promise-with-throwing-constructor-getter")
				aw.Tamper, aw.TamperVal = 2, 1500+g.ns()
			}
			return aw
		}
		return &EAwait{E: g.expr(d - 1)}
	}
	if len(g.gvars) > 0 {
		g.use("driver-op")
		op := dNext
		switch g.t.Draw(6) {
		case 4:
			op = dThrow
		case 5:
			op = dReturn
		}
		return &EDrive{Site: g.ns(), Gen: g.gvars[g.t.Draw(len(g.gvars))], Op: op, Arg: g.expr(d - 1)}
	}
	return g.leafExpr()
}

func (g *pgen) stmt(d int) Stmt {
	g.budget--
	if d <= 0 || g.budget <= 0 {
		if g.t.Draw(2) == 0 {
			return g.exitPoint()
		}
		return &SAssign{Var: g.scratchVar(), E: g.expr(1)}
	}
	d--
	k := g.t.Draw(20)
	switch k {
	case 0:
		return g.exitPoint()
	case 1, 2:
		return &SAssign{Var: g.scratchVar(), E: g.expr(2)}
	case 3, 4, 5:
		s := &STry{}
		shape := g.t.Draw(3) // 0: catch+finally 1: finally 2: catch
		s.Body = g.block(d)
		if shape != 1 {
			s.HasCatch = true
			s.CatchVar = g.newVar("e")
			s.CatchSite = g.ns()
			s.Catch = g.block(d)
			g.use("try-catch")
		}
		if shape != 2 {
			s.HasFinally = true
			s.Finally = g.block(d)
			g.use("try-finally")
			if g.t.Draw(6) == 5 {
				// a finally block in which a nested abrupt completion is cancelled by the finally block of an inner try
				// statement (L: { try { <abrupt> } finally { break L } }): whatever was pending before must survive
				g.use("cancelled-abrupt-in-finally")
				l := g.newLabel()
				var inner []Stmt
				g.withLabel(lblInfo{name: l}, func() {
					ex := g.exitPoint()
					body := []Stmt{ex}
					switch g.t.Draw(3) {
					case 0:
						body = append(body, &SReturn{E: &ENum{N: 3000 + ex.Site}})
					case 1:
						body = append(body, &SThrow{E: &ENum{N: 4000 + ex.Site}})
					}
					inner = []Stmt{&STry{Body: body, HasFinally: true, Finally: []Stmt{g.exitPoint(), &SBranch{Kind: xBreak, Label: l}}}}
				})
				s.Finally = append(s.Finally, &SBlock{Label: l, Body: inner})
			}
			if len(g.gvars) > 0 && g.t.Draw(3) == 0 {
				// re-entrancy: a finally block (possibly running because of return()/throw()/iterator close) drives a generator
				g.use("driver-op-in-finally")
				s.Finally = append(s.Finally, &SAssign{Var: g.scratchVar(), E: &EDrive{Site: g.ns(), Gen: g.gvars[g.t.Draw(len(g.gvars))], Op: g.t.Draw(3), Arg: g.leafExpr()}})
			}
		}
		return s
	case 6:
		s := &SFor{Label: g.newLabel(), Var: g.newVar("i"), N: 1 + g.t.Draw(3), LetCopy: g.t.Draw(3) == 2}
		g.withLabel(lblInfo{name: s.Label, isLoop: true}, func() { s.Body = g.block(d) })
		g.use("for")
		return s
	case 7:
		s := &SWhile{Label: g.newLabel(), Var: g.newVar("w"), N: 1 + g.t.Draw(2), Do: g.t.Draw(2) == 1}
		g.withLabel(lblInfo{name: s.Label, isLoop: true}, func() { s.Body = g.block(d) })
		g.use("while/do-while")
		return s
	case 8:
		s := &SForIn{Label: g.newLabel(), Var: g.newVar("k"), N: 1 + g.t.Draw(2)}
		g.withLabel(lblInfo{name: s.Label, isLoop: true}, func() { s.Body = g.block(d) })
		g.use("for-in")
		return s
	case 9, 10, 11:
		s := &SForOf{Label: g.newLabel(), Var: g.newVar("x"), Iter: g.iterable(d)}
		g.withLabel(lblInfo{name: s.Label, isLoop: true}, func() { s.Body = g.block(d) })
		g.use("for-of")
		return s
	case 12:
		s := &SBlock{Label: g.newLabel(), Scope: g.t.Draw(3)}
		g.withLabel(lblInfo{name: s.Label}, func() { s.Body = g.block(d) })
		g.use([]string{"labelled-block", "let-scope-block", "with-block"}[s.Scope])
		return s
	case 13:
		s := &SSwitch{Label: g.newLabel(), Disc: &EProbe{Site: g.ns()}}
		g.withLabel(lblInfo{name: s.Label, isSwitch: true}, func() {
			nc := 2 + g.t.Draw(2)
			def := g.t.Draw(nc + 1)
			for i := 0; i < nc; i++ {
				c := SCase{Val: i, IsDefault: i == def}
				c.Body = g.block(d)
				s.Cases = append(s.Cases, c)
			}
		})
		g.use("switch")
		return s
	case 14:
		s := &SIf{Cond: &EProbe{Site: g.ns()}}
		s.Then = g.block(d)
		if g.t.Draw(2) == 1 {
			s.Else = g.block(d)
		}
		return s
	case 15, 16:
		s := &SDestruct{Iter: g.iterable(d)}
		switch g.t.Draw(4) {
		case 0:
			s.A, s.B = g.newVar("a"), g.newVar("b")
		case 1:
			s.A, s.B, s.Rest = g.newVar("a"), g.newVar("b"), g.newVar("r")
		case 2:
			s.A = g.newVar("a")
		default:
			s.B, s.Rest = g.newVar("b"), g.newVar("r")
		}
		if s.B != "" && g.t.Draw(2) == 1 {
			s.Def = g.expr(2)
		}
		g.use("destructuring")
		return s
	case 17:
		if g.fn.Kind == fGen {
			g.use("yield-statement")
			return &SAssign{Var: g.scratchVar(), E: &EYield{E: g.expr(1)}}
		}
		return &SExpr{E: &EMark{Site: g.ns(), E: g.expr(2)}}
	case 18:
		if g.t.Draw(3) == 0 {
			return &SReturn{E: g.expr(1)}
		}
		return &SExpr{E: &EMark{Site: g.ns(), E: g.expr(2)}}
	default:
		return &SExpr{E: &EMark{Site: g.ns(), E: g.expr(2)}}
	}
}

func (g *pgen) function(name string, kind int, depth, budget int) *Func {
	f := &Func{Name: name, Kind: kind, Params: []string{"p"}}
	g.fn = f
	g.labels = nil
	g.budget = budget
	g.scratch = nil
	for i := 0; i < 3; i++ {
		g.scratch = append(g.scratch, g.newVar("v"))
	}
	f.Body = g.block(depth)
	if g.t.Draw(3) == 0 {
		// every local of this function is captured by a closure, so the locals live in a scope object instead of stack
		// slots and every nested block scope adds a level that exits, resumptions and finally blocks must unwind exactly
		g.use("captured-locals")
		f.Capture = true
	}
	if kind == fGen && len(g.gvars) > 0 {
		// two recurring shapes of cooperating generators, on top of the random body: a RELAY that is suspended inside a
		// for-of over another generator (not inside any try statement), and a FINALIZER whose finally block drives a
		// generator (so that it runs re-entrantly while some other generator's return()/throw() closes it)
		switch g.t.Draw(8) {
		case 7:
			// a finally block that itself suspends (also inside a try/catch of its own), after a delegation in the try
			// block: return() / throw() then arrive while the generator is suspended INSIDE the finally block that is
			// running because of an earlier return(), and the delegate of the try block has been abandoned
			g.use("yielding-finally-after-delegation")
			e, e2, x := g.newVar("e"), g.newVar("e"), g.newVar("x")
			inner := &STry{
				Body: []Stmt{
					&SAssign{Var: g.scratch[0], E: &EYield{E: &ENum{N: 1}}},
					&SAssign{Var: g.scratch[0], E: &EYieldStar{Iter: g.iterable(1)}},
				},
				HasFinally: true,
				Finally: []Stmt{
					// an iterator that is open while the generator is suspended inside the finally block
					&SForOf{Label: g.newLabel(), Var: x, Iter: &EIt{Site: g.ns(), N: 2, Flags: 3}, Body: []Stmt{&SAssign{Var: g.scratch[1], E: &EYield{E: &ENum{N: 2}}}}},
					&STry{
						Body:     []Stmt{&SAssign{Var: g.scratch[1], E: &EYield{E: &ENum{N: 3}}}, g.exitPoint()},
						HasCatch: true, CatchVar: e, CatchSite: g.ns(),
						Catch: []Stmt{&SAssign{Var: g.scratch[2], E: &EYield{E: &ENum{N: 4}}}},
					},
					&SAssign{Var: g.scratch[1], E: &EYield{E: &ENum{N: 5}}},
					g.exitPoint(),
				},
			}
			if g.t.Draw(2) == 0 {
				// variant: a try/finally nested INSIDE the finally block; both finally blocks can then be running because
				// of (two successive) return() calls when an exception leaves the inner one
				inner.Finally = []Stmt{
					&STry{
						Body:       []Stmt{&SAssign{Var: g.scratch[1], E: &EYield{E: &ENum{N: 8}}}},
						HasFinally: true,
						Finally:    []Stmt{&SAssign{Var: g.scratch[2], E: &EYield{E: &ENum{N: 9}}}, g.exitPoint()},
					},
					&SAssign{Var: g.scratch[1], E: &EYield{E: &ENum{N: 5}}},
				}
			}
			var st Stmt = inner
			if g.t.Draw(2) == 0 {
				// ... nested in an outer try/finally whose finally block suspends too, inside a try/catch
				st = &STry{
					Body:     []Stmt{&STry{Body: []Stmt{inner}, HasFinally: true, Finally: []Stmt{&SAssign{Var: g.scratch[2], E: &EYield{E: &ENum{N: 6}}}, g.exitPoint()}}},
					HasCatch: true, CatchVar: e2, CatchSite: g.ns(),
					Catch: []Stmt{&SAssign{Var: g.scratch[2], E: &EYield{E: &ENum{N: 7}}}},
				}
			}
			f.Body = append(f.Body, st)
		case 6:
			// a delegation that fails in GetIterator (or in the delegate's first step), caught by the generator itself,
			// which then drives a generator (possibly itself: it is still running) before it yields again
			g.use("failed-delegation-then-driver-op")
			e := g.newVar("e")
			f.Body = append(f.Body, &STry{
				Body:     []Stmt{&SAssign{Var: g.scratch[0], E: &EYieldStar{Iter: &EIt{Site: g.ns(), N: 1 + g.t.Draw(2), Flags: 3, Wrap: true}}}},
				HasCatch: true, CatchVar: e, CatchSite: g.ns(),
				Catch: []Stmt{&SAssign{Var: g.scratch[1], E: &EDrive{Site: g.ns(), Gen: g.gvars[g.t.Draw(len(g.gvars))], Op: g.t.Draw(3), Arg: &ENum{N: 0}}}},
			}, &SAssign{Var: g.scratch[2], E: &EDrive{Site: g.ns(), Gen: g.gvars[g.t.Draw(len(g.gvars))], Op: g.t.Draw(3), Arg: &ENum{N: 1}}})
		case 4:
			g.use("relay-generator")
			x := g.newVar("x")
			f.Body = append(f.Body, &SForOf{Label: g.newLabel(), Var: x, Iter: g.iterable(1), Body: []Stmt{
				g.exitPointIn(),
				&SAssign{Var: g.scratch[0], E: &EYield{E: &EVar{Name: x}}},
			}})
		case 5:
			g.use("finalizer-generator")
			f.Body = append(f.Body, &STry{
				Body:       []Stmt{&SAssign{Var: g.scratch[0], E: &EYield{E: &ENum{N: 3}}}, &SAssign{Var: g.scratch[1], E: &EYield{E: &ENum{N: 4}}}},
				HasFinally: true,
				Finally: []Stmt{&SAssign{Var: g.scratch[2], E: &EDrive{Site: g.ns(), Gen: g.gvars[g.t.Draw(len(g.gvars))], Op: g.t.Draw(3), Arg: &ENum{N: 0}}},
					&SExit{Site: g.ns()}},
			})
		}
	}
	if kind == fGen && g.t.Draw(2) == 0 {
		// make sure most generators yield at least twice at the top level
		f.Body = append([]Stmt{&SAssign{Var: g.scratch[0], E: &EYield{E: &ENum{N: 1}}}}, f.Body...)
		f.Body = append(f.Body, &SAssign{Var: g.scratch[1], E: &EYield{E: &ENum{N: 2}}})
	}
	f.Body = append(f.Body, &SReturn{E: &EAdd{L: &EVar{Name: g.scratch[0]}, R: &ENum{N: 100}}})
	return f
}

// genProgram draws a whole program from the workload track.
func genProgram(t *core.Track, mode string) (*Program, map[string]int) {
	g := &pgen{t: t, mode: mode, feat: map[string]int{}}
	pr := &Program{}
	depth := 2 + t.Draw(3)
	np := t.Draw(3)
	ng := t.Draw(3)
	na := 0
	if mode == "C09" {
		ng = 1 + t.Draw(3)
		if t.Draw(3) == 2 {
			na = 1 + t.Draw(3)
		}
	}
	for i := 0; i < np; i++ {
		f := g.function(fmt.Sprintf("f%d", i), fPlain, 1+t.Draw(depth), 14)
		g.plain = append(g.plain, f)
		pr.Funcs = append(pr.Funcs, f)
	}
	if mode == "C09" || (ng > 0 && t.Draw(2) == 0) {
		// generator objects live in globals so that any body (including the generator's own) can drive them
		// (always for C09; in half of the C08 programs that have generators, so that completion values that travel
		// through return()/throw() and yield* delegates are observed there too)
		nv := 1 + t.Draw(3)
		for i := 0; i < nv; i++ {
			g.gvars = append(g.gvars, fmt.Sprintf("G%d", i))
		}
		pr.GVars = g.gvars
	}
	for i := 0; i < ng; i++ {
		f := g.function(fmt.Sprintf("g%d", i), fGen, 1+t.Draw(depth), 18)
		g.gens = append(g.gens, f)
		pr.Funcs = append(pr.Funcs, f)
	}
	for i := 0; i < na; i++ {
		f := g.function(fmt.Sprintf("a%d", i), fAsync, 1+t.Draw(depth), 14)
		g.asyncs = append(g.asyncs, f)
		pr.Funcs = append(pr.Funcs, f)
	}
	for _, gv := range g.gvars {
		f := g.gens[t.Draw(len(g.gens))]
		pr.GInit = append(pr.GInit, SAssign{Var: gv, E: &EGenCall{Fn: f.Name, Args: []Expr{&ENum{N: t.Draw(4)}}}})
	}
	// C09: in a sixth of the programs a wired pair of cooperating generators: GR is a relay suspended inside a for-of
	// over GF (outside any try statement, or inside one), GF's finally block drives GR or GF re-entrantly. main then
	// drives the pair. Everything else about the program stays random.
	var pairDrive []Stmt
	if mode == "C09" && t.Draw(6) == 5 {
		g.use("wired-relay-finalizer-pair")
		g.gvars = append(g.gvars, "GR", "GF")
		pr.GVars = g.gvars
		relay := &Func{Name: "grelay", Kind: fGen, Params: []string{"p"}}
		g.fn = relay
		g.labels = nil
		g.scratch = []string{g.newVar("v"), g.newVar("v"), g.newVar("v")}
		x := g.newVar("x")
		loop := &SForOf{Label: g.newLabel(), Var: x, Iter: &EGVar{Name: "GF"}, Body: []Stmt{g.exitPointIn(), &SAssign{Var: g.scratch[0], E: &EYield{E: &EVar{Name: x}}}}}
		if t.Draw(3) == 0 {
			relay.Body = []Stmt{&STry{Body: []Stmt{loop}, HasFinally: true, Finally: []Stmt{&SExit{Site: g.ns()}}}}
		} else {
			relay.Body = []Stmt{loop}
		}
		relay.Body = append(relay.Body, &SReturn{E: &ENum{N: 55}})
		fin := &Func{Name: "gfinal", Kind: fGen, Params: []string{"p"}}
		g.fn = fin
		g.scratch = []string{g.newVar("v"), g.newVar("v"), g.newVar("v")}
		target := []string{"GR", "GF"}[t.Draw(2)]
		fin.Body = []Stmt{&STry{
			Body:       []Stmt{&SAssign{Var: g.scratch[0], E: &EYield{E: &ENum{N: 3}}}, &SAssign{Var: g.scratch[1], E: &EYield{E: &ENum{N: 4}}}},
			HasFinally: true,
			Finally:    []Stmt{&SExit{Site: g.ns()}, &SAssign{Var: g.scratch[2], E: &EDrive{Site: g.ns(), Gen: target, Op: t.Draw(3), Arg: &ENum{N: 0}}}},
		}, &SReturn{E: &ENum{N: 66}}}
		g.gens = append(g.gens, relay, fin)
		pr.Funcs = append(pr.Funcs, relay, fin)
		pr.GInit = append(pr.GInit, SAssign{Var: "GR", E: &EGenCall{Fn: "grelay", Args: []Expr{&ENum{N: 0}}}}, SAssign{Var: "GF", E: &EGenCall{Fn: "gfinal", Args: []Expr{&ENum{N: 0}}}})
		for i, n := 0, 1+t.Draw(2); i < n; i++ {
			pairDrive = append(pairDrive, &SExpr{E: &EDrive{Site: g.ns(), Gen: "GR", Op: dNext, Arg: &ENum{N: i}}})
		}
		for i, n := 0, 1+t.Draw(3); i < n; i++ {
			pairDrive = append(pairDrive, &STry{Body: []Stmt{&SExpr{E: &EDrive{Site: g.ns(), Gen: []string{"GR", "GF"}[t.Draw(2)], Op: t.Draw(3), Arg: &ENum{N: 7}}}},
				HasCatch: true, CatchVar: "ep", CatchSite: g.ns()})
		}
	}
	// a scripted sequence of driver operations on one generator object at the start of main (on top of the random driver
	// operations inside the bodies): histories like next, return, throw, next need several operations in a row
	var seqDrive []Stmt
	if len(g.gvars) > 0 && t.Draw(4) != 0 {
		g.use("driver-sequence")
		gv := g.gvars[t.Draw(len(g.gvars))]
		for i, n := 0, 2+t.Draw(4); i < n; i++ {
			op := []int{dNext, dNext, dThrow, dReturn, dReturn}[t.Draw(5)]
			seqDrive = append(seqDrive, &STry{Body: []Stmt{&SExpr{E: &EDrive{Site: g.ns(), Gen: gv, Op: op, Arg: &ENum{N: 20 + i}}}},
				HasCatch: true, CatchVar: "ep", CatchSite: g.ns()})
		}
	}
	main := g.function("main", fPlain, depth, 40)
	if len(seqDrive) > 0 {
		if len(pairDrive) == 0 {
			main.Locals = append(main.Locals, "ep")
		}
		main.Body = append(seqDrive, main.Body...)
	}
	if len(pairDrive) > 0 {
		main.Locals = append(main.Locals, "ep")
		main.Body = append(pairDrive, main.Body...)
	}
	if na > 0 {
		var starts []Stmt
		for _, a := range g.asyncs {
			starts = append(starts, &SExpr{E: &EAsyncCall{Fn: a.Name, Args: []Expr{&ENum{N: t.Draw(4)}}, Site: g.ns()}})
		}
		g.fn = main
		// start the async activations somewhere in main: before the body or after its first statement
		if t.Draw(2) == 0 {
			main.Body = append(starts, main.Body...)
		} else {
			main.Body = append(main.Body[:1:1], append(starts, main.Body[1:]...)...)
		}
		g.feat["async-activations"] += na
	}
	pr.Funcs = append(pr.Funcs, main)
	return pr, g.feat
}
