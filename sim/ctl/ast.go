package ctl

import (
	"fmt"
	"strings"
)

// ctlsim skeleton language: a small structured language that is both printed as JavaScript (run by the real goja) and
// interpreted by a definitional reference interpreter (ctl_model.go) that follows ECMA-262's completion-record
// semantics. Every statement position carries an EXIT POINT  switch (P(site) % m) { case 1: throw..; case 2: break L; ... }
// listing every abrupt exit that is legal there; which one fires at which dynamic visit is decided by the decision
// schedule (tape), not by the program text.

type Stmt interface{}
type Expr interface{}

const (
	xThrow = iota
	xBreak
	xContinue
	xReturn
)

type Exit struct {
	Kind  int
	Label string
	Val   int
}

type SExit struct {
	Site  int
	Exits []Exit
}
type SExpr struct{ E Expr }
type SAssign struct {
	Var string
	E   Expr
}
type STry struct {
	Body       []Stmt
	HasCatch   bool
	CatchVar   string
	CatchSite  int // A(site, e) at the head of the catch block
	Catch      []Stmt
	HasFinally bool
	Finally    []Stmt
}
type SFor struct {
	Label, Var string
	N          int
	Body       []Stmt
	LetCopy    bool // the body starts with a closure-captured per-iteration let binding
}
type SWhile struct {
	Label, Var string
	N          int
	Do         bool
	Body       []Stmt
}
type SForOf struct {
	Label, Var string
	Iter       Expr
	Body       []Stmt
}
type SForIn struct {
	Label, Var string
	N          int
	Body       []Stmt
}
type SBlock struct {
	Label string
	Body  []Stmt
	Scope int // 0: plain block; 1: block with a closure-captured let binding (a scope object the exits must leave); 2: with ({}) { }
}
type SCase struct {
	Val       int
	IsDefault bool
	Body      []Stmt
}
type SSwitch struct {
	Label string
	Disc  Expr
	Cases []SCase
}
type SIf struct {
	Cond       Expr
	Then, Else []Stmt
}
type SBranch struct { // unconditional break / continue (Label "" = unlabelled)
	Kind  int
	Label string
}
type SReturn struct{ E Expr }
type SThrow struct{ E Expr }
type SDestruct struct {
	A, B, Rest string // "" = absent
	Def        Expr   // default for B (nil = none)
	Iter       Expr
}

type ENum struct{ N int }
type EVar struct{ Name string }
type EMark struct {
	Site int
	E    Expr
}
type EProbe struct{ Site int }
type EAdd struct{ L, R Expr }
type ECond struct{ C, T, F Expr }
type EAnd struct{ L, R Expr }
type EOr struct{ L, R Expr }
type ECall struct {
	Fn   string
	Args []Expr
}
type ESpreadLen struct {
	Pre  Expr // element evaluated before the spread (nil = none)
	Iter Expr
}
type ETemplate struct{ Parts []Expr }

// expression forms whose only purpose is to keep partially evaluated state (operands, references) alive across a
// yield / await inside them
type EObjLit struct{ A, B Expr } // ({ a: A, b: B }).a + ({...}).b  rendered as a single literal: value A + B
type EArrLit struct{ A, B Expr } // [A, B][1] : value B
type EPropSet struct{ E Expr }   // (_o.p = E, _o.p) : value E ; the reference _o.p is taken before E runs
type ECompound struct {          // (v += E) : the old value of v is read before E runs
	Var string
	E   Expr
}

// built-ins that consume an iterable and must close it on failure
type EArrayFrom struct { // Array.from(ITER, fn).length ; Fn == "" : no mapping function
	Iter Expr
	Fn   string
}
type ESetSize struct{ Iter Expr } // new Set(ITER).size
type EMapSize struct{ Iter Expr } // new Map(ITER).size  (items are not entry objects: TypeError + IteratorClose)
type EIt struct {
	Site, N, Flags int
	Wrap           bool    // mkIb: an iterable whose [Symbol.iterator]() method is a probe of its own (site+3) that may throw or return a non-object
	Drv            *EDrive // mkIb only: a driver operation that [Symbol.iterator]() performs when its decision is 3 (re-entrancy during GetIterator)
}
type EArr struct{ Elems []Expr }
type EGenCall struct {
	Fn   string
	Args []Expr
}
type EGVar struct{ Name string } // a global holding a generator object, used as an iterable
type EYield struct{ E Expr }
type EYieldStar struct{ Iter Expr }

const (
	dNext = iota
	dThrow
	dReturn
)

type EDrive struct {
	Site int
	Gen  string
	Op   int
	Arg  Expr
}
type EAwait struct {
	E         Expr
	Tamper    int // 1: the awaited promise has its 'constructor' replaced (Await must wrap it in a new promise); 2: its 'constructor' getter throws TamperVal (the await expression throws)
	TamperVal int
}
type EAsyncStart struct { // call an async function; the value is its promise (only used as the operand of await)
	Fn   string
	Args []Expr
}
type EAsyncCall struct { // start an async function; its promise gets then-handlers that log through A(site..)
	Fn   string
	Args []Expr
	Site int
}

const (
	fPlain = iota
	fGen
	fAsync
)

type Func struct {
	Name   string
	Kind   int
	Params []string
	Locals []string
	Body   []Stmt
	// Capture: a closure captures every local and parameter (they move from stack slots to a scope object)
	Capture bool
}

type Program struct {
	Funcs []*Func // callee-before-caller order; the last one is main
	GVars []string
	GInit []SAssign // G = g(args) assignments executed at the start of main
}

// ---- printer ------------------------------------------------------------------------------------------------------

const ctlHelpers = `
function N(v) { return typeof v === 'number' ? v : -1; }
function TP(p) { p.constructor = Object; return p; }
function TG(p, v) { Object.defineProperty(p, 'constructor', { get: function() { throw v; } }); return p; }
function mkRes(s, fl, v, d) {
  if (!(fl & 4)) return { value: v, done: d };
  return { get done() { A(s, 0); return d; }, get value() { A(s, 1); return v; } };
}
function mkIt(s, n, fl) {
  var i = 0;
  var it = {
    next: function(v) {
      var d = P(s, v) % 4;
      if (d === 1) throw 1000 + s;
      if (d === 2) return mkRes(s, fl, undefined, true);
      if (d === 3) return 5;
      if (i < n) return mkRes(s, fl, 10 * s + i++, false);
      return mkRes(s, fl, 77, true);
    }
  };
  it[Symbol.iterator] = function() { return this; };
  if (fl & 1) it.return = function(v) {
    var d = P(s + 1, v) % 4;
    if (d === 1) throw 1000 + s + 1;
    if (d === 2) return 5;
    if (d === 3) return mkRes(s, fl, 3, false);
    return mkRes(s, fl, N(v) + 100, true);
  };
  if (fl & 2) it.throw = function(v) {
    var d = P(s + 2, v) % 4;
    if (d === 1) return mkRes(s, fl, 7, false);
    if (d === 2) return mkRes(s, fl, 9, true);
    if (d === 3) return 5;
    throw v;
  };
  return it;
}
function mkIb(s, n, fl, drv) {
  var o = {};
  o[Symbol.iterator] = function() {
    var d = P(s + 3) % 4;
    if (d === 1) throw 1000 + s + 3;
    if (d === 2) return 5;
    if (d === 3 && drv) drv();
    return mkIt(s, n, fl);
  };
  return o;
}
`

type ctlPrinter struct {
	sb  strings.Builder
	ind int
}

func (p *ctlPrinter) line(f string, a ...interface{}) {
	p.sb.WriteString(strings.Repeat("  ", p.ind))
	fmt.Fprintf(&p.sb, f, a...)
	p.sb.WriteByte('\n')
}

func printProgram(pr *Program) string {
	p := &ctlPrinter{}
	p.sb.WriteString(ctlHelpers)
	if len(pr.GVars) > 0 {
		p.line("var %s;", strings.Join(pr.GVars, ", "))
	}
	for _, f := range pr.Funcs {
		kw := "function"
		switch f.Kind {
		case fGen:
			kw = "function*"
		case fAsync:
			kw = "async function"
		}
		p.line("%s %s(%s) {", kw, f.Name, strings.Join(f.Params, ", "))
		p.ind++
		p.line("var _d = 0, _o = { p: 0 };")
		if len(f.Locals) > 0 {
			p.line("var %s = 0;", strings.Join(f.Locals, " = 0, "))
		}
		if f.Capture {
			p.line("(function() { return [%s]; });", strings.Join(append(append([]string{}, f.Params...), f.Locals...), ", "))
		}
		if f.Name == "main" {
			for _, gi := range pr.GInit {
				p.line("%s = %s;", gi.Var, exprJS(gi.E))
			}
		}
		p.stmts(f.Body)
		p.ind--
		p.line("}")
	}
	return p.sb.String()
}

func (p *ctlPrinter) block(ss []Stmt) {
	p.ind++
	p.stmts(ss)
	p.ind--
}

func lbl(l string) string {
	if l == "" {
		return ""
	}
	return l + ": "
}

func (p *ctlPrinter) stmts(ss []Stmt) {
	for _, s := range ss {
		switch s := s.(type) {
		case *SExit:
			if len(s.Exits) == 0 {
				p.line("P(%d);", s.Site)
				continue
			}
			// an if-chain, not a switch: an unlabelled break must target the enclosing loop, not the exit point itself
			var sb strings.Builder
			fmt.Fprintf(&sb, "_d = P(%d) %% %d;", s.Site, len(s.Exits)+1)
			for i, x := range s.Exits {
				fmt.Fprintf(&sb, " if (_d === %d) ", i+1)
				switch x.Kind {
				case xThrow:
					fmt.Fprintf(&sb, "throw %d;", x.Val)
				case xBreak:
					if x.Label == "" {
						sb.WriteString("break;")
					} else {
						fmt.Fprintf(&sb, "break %s;", x.Label)
					}
				case xContinue:
					if x.Label == "" {
						sb.WriteString("continue;")
					} else {
						fmt.Fprintf(&sb, "continue %s;", x.Label)
					}
				case xReturn:
					fmt.Fprintf(&sb, "return %d;", x.Val)
				}
			}
			p.line("%s", sb.String())
		case *SExpr:
			p.line("%s;", exprJS(s.E))
		case *SAssign:
			p.line("%s = %s;", s.Var, exprJS(s.E))
		case *STry:
			p.line("try {")
			p.block(s.Body)
			if s.HasCatch {
				p.line("} catch (%s) {", s.CatchVar)
				p.ind++
				p.line("A(%d, %s);", s.CatchSite, s.CatchVar)
				p.ind--
				p.block(s.Catch)
			}
			if s.HasFinally {
				p.line("} finally {")
				p.block(s.Finally)
			}
			p.line("}")
		case *SFor:
			p.line("%sfor (%s = 0; %s < %d; %s++) {", lbl(s.Label), s.Var, s.Var, s.N, s.Var)
			if s.LetCopy {
				p.line("  let z_%s = %s; (function() { return z_%s; });", s.Var, s.Var, s.Var)
			}
			p.block(s.Body)
			p.line("}")
		case *SWhile:
			p.line("%s = 0;", s.Var)
			if s.Do {
				p.line("%sdo {", lbl(s.Label))
				p.block(s.Body)
				p.line("} while (++%s < %d);", s.Var, s.N)
			} else {
				p.line("%swhile (%s++ < %d) {", lbl(s.Label), s.Var, s.N)
				p.block(s.Body)
				p.line("}")
			}
		case *SForOf:
			p.line("%sfor (%s of %s) {", lbl(s.Label), s.Var, exprJS(s.Iter))
			p.block(s.Body)
			p.line("}")
		case *SForIn:
			var keys []string
			for i := 0; i < s.N; i++ {
				keys = append(keys, fmt.Sprintf("k%d: 1", i))
			}
			p.line("%sfor (%s in { %s }) {", lbl(s.Label), s.Var, strings.Join(keys, ", "))
			p.block(s.Body)
			p.line("}")
		case *SBlock:
			switch s.Scope {
			case 1:
				p.line("%s{", lbl(s.Label))
				p.line("  let z_%s = 1; (function() { return z_%s; });", s.Label, s.Label)
			case 2:
				p.line("%swith ({}) {", lbl(s.Label))
			default:
				p.line("%s{", lbl(s.Label))
			}
			p.block(s.Body)
			p.line("}")
		case *SSwitch:
			p.line("%sswitch (%s) {", lbl(s.Label), exprJS(s.Disc))
			p.ind++
			for _, c := range s.Cases {
				if c.IsDefault {
					p.line("default:")
				} else {
					p.line("case %d:", c.Val)
				}
				p.block(c.Body)
			}
			p.ind--
			p.line("}")
		case *SIf:
			p.line("if (%s) {", exprJS(s.Cond))
			p.block(s.Then)
			if len(s.Else) > 0 {
				p.line("} else {")
				p.block(s.Else)
			}
			p.line("}")
		case *SBranch:
			kw := "break"
			if s.Kind == xContinue {
				kw = "continue"
			}
			if s.Label == "" {
				p.line("%s;", kw)
			} else {
				p.line("%s %s;", kw, s.Label)
			}
		case *SReturn:
			p.line("return %s;", exprJS(s.E))
		case *SThrow:
			p.line("throw %s;", exprJS(s.E))
		case *SDestruct:
			var parts []string
			if s.A != "" {
				parts = append(parts, s.A)
			}
			if s.B != "" {
				if s.Def != nil {
					parts = append(parts, fmt.Sprintf("%s = %s", s.B, exprJS(s.Def)))
				} else {
					parts = append(parts, s.B)
				}
			}
			if s.Rest != "" {
				parts = append(parts, "..."+s.Rest)
			}
			p.line("[%s] = %s;", strings.Join(parts, ", "), exprJS(s.Iter))
			if s.A != "" {
				p.line("%s = N(%s);", s.A, s.A)
			}
			if s.B != "" {
				p.line("%s = N(%s);", s.B, s.B)
			}
			if s.Rest != "" {
				p.line("%s = %s.length;", s.Rest, s.Rest)
			}
		default:
			panic(fmt.Sprintf("printer: unknown stmt %T", s))
		}
	}
}

func exprsJS(es []Expr) string {
	var parts []string
	for _, e := range es {
		parts = append(parts, exprJS(e))
	}
	return strings.Join(parts, ", ")
}

func exprJS(e Expr) string {
	switch e := e.(type) {
	case *ENum:
		return fmt.Sprintf("%d", e.N)
	case *EVar:
		return e.Name
	case *EGVar:
		return e.Name
	case *EMark:
		return fmt.Sprintf("A(%d, %s)", e.Site, exprJS(e.E))
	case *EProbe:
		return fmt.Sprintf("P(%d)", e.Site)
	case *EAdd:
		return fmt.Sprintf("(%s + %s)", exprJS(e.L), exprJS(e.R))
	case *ECond:
		return fmt.Sprintf("(%s ? %s : %s)", exprJS(e.C), exprJS(e.T), exprJS(e.F))
	case *EAnd:
		return fmt.Sprintf("(%s && %s)", exprJS(e.L), exprJS(e.R))
	case *EOr:
		return fmt.Sprintf("(%s || %s)", exprJS(e.L), exprJS(e.R))
	case *ECall:
		return fmt.Sprintf("%s(%s)", e.Fn, exprsJS(e.Args))
	case *ESpreadLen:
		if e.Pre != nil {
			return fmt.Sprintf("[%s, ...%s].length", exprJS(e.Pre), exprJS(e.Iter))
		}
		return fmt.Sprintf("[...%s].length", exprJS(e.Iter))
	case *EArrayFrom:
		if e.Fn != "" {
			return fmt.Sprintf("Array.from(%s, %s).length", exprJS(e.Iter), e.Fn)
		}
		return fmt.Sprintf("Array.from(%s).length", exprJS(e.Iter))
	case *ESetSize:
		return fmt.Sprintf("new Set(%s).size", exprJS(e.Iter))
	case *EMapSize:
		return fmt.Sprintf("new Map(%s).size", exprJS(e.Iter))
	case *EObjLit:
		return fmt.Sprintf("(function(o) { return o.a + o.b; })({ a: %s, b: %s })", exprJS(e.A), exprJS(e.B))
	case *EArrLit:
		return fmt.Sprintf("[%s, %s][1]", exprJS(e.A), exprJS(e.B))
	case *EPropSet:
		return fmt.Sprintf("(_o.p = %s, _o.p)", exprJS(e.E))
	case *ECompound:
		return fmt.Sprintf("(%s += %s)", e.Var, exprJS(e.E))
	case *ETemplate:
		var sb strings.Builder
		sb.WriteString("`")
		for i, p := range e.Parts {
			if i > 0 {
				sb.WriteString("-")
			}
			fmt.Fprintf(&sb, "${%s}", exprJS(p))
		}
		sb.WriteString("`.length")
		return sb.String()
	case *EIt:
		if e.Wrap {
			if e.Drv != nil {
				return fmt.Sprintf("mkIb(%d, %d, %d, function() { return %s; })", e.Site, e.N, e.Flags, exprJS(e.Drv))
			}
			return fmt.Sprintf("mkIb(%d, %d, %d)", e.Site, e.N, e.Flags)
		}
		return fmt.Sprintf("mkIt(%d, %d, %d)", e.Site, e.N, e.Flags)
	case *EArr:
		return "[" + exprsJS(e.Elems) + "]"
	case *EGenCall:
		return fmt.Sprintf("%s(%s)", e.Fn, exprsJS(e.Args))
	case *EYield:
		return fmt.Sprintf("N(yield %s)", exprJS(e.E))
	case *EYieldStar:
		return fmt.Sprintf("N(yield* %s)", exprJS(e.Iter))
	case *EDrive:
		op := [...]string{"next", "throw", "return"}[e.Op]
		return fmt.Sprintf("R(%d, %s.%s(%s))", e.Site, e.Gen, op, exprJS(e.Arg))
	case *EAwait:
		switch e.Tamper {
		case 1:
			return fmt.Sprintf("N(await TP(%s))", exprJS(e.E))
		case 2:
			return fmt.Sprintf("N(await TG(%s, %d))", exprJS(e.E), e.TamperVal)
		}
		return fmt.Sprintf("N(await %s)", exprJS(e.E))
	case *EAsyncStart:
		return fmt.Sprintf("%s(%s)", e.Fn, exprsJS(e.Args))
	case *EAsyncCall:
		return fmt.Sprintf("(%s(%s).then(function(v) { A(%d, v); }, function(e) { A(%d, e); }), 0)", e.Fn, exprsJS(e.Args), e.Site, e.Site+1)
	}
	panic(fmt.Sprintf("printer: unknown expr %T", e))
}
