// Package ctl is the control-flow simulation engine (E2, properties C08 and C09): generated programs in a skeleton
// language run on the real goja under a decision schedule, compared event for event with a definitional reference
// interpreter that consumes the same schedule.
package ctl

import (
	"fmt"
	"strings"
)

// Event is one entry of the host-observable event log.
type Event struct {
	Kind string
	Site int
	Arg  string
}

func (e Event) String() string {
	if e.Arg != "" && e.Arg != "undefined" {
		return fmt.Sprintf("%s%d(%s)", e.Kind, e.Site, e.Arg)
	}
	return fmt.Sprintf("%s%d", e.Kind, e.Site)
}

func renderLog(l []Event) string {
	var sb strings.Builder
	for i, e := range l {
		if i > 0 {
			sb.WriteByte(' ')
		}
		sb.WriteString(e.String())
	}
	return sb.String()
}

// firstDivergence returns -1 when the logs are equal, else the first index where they differ.
func firstDivergence(a, b []Event) int {
	for i := range a {
		if i >= len(b) || a[i] != b[i] {
			return i
		}
	}
	if len(a) != len(b) {
		return len(a)
	}
	return -1
}

func evAt(l []Event, i int) string {
	if i < len(l) {
		return l[i].String()
	}
	return "<end of log>"
}
