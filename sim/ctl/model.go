package ctl

import (
	"fmt"
)

// Definitional interpreter of the skeleton language with explicit completion records, transcribed from ECMA-262:
// try statement evaluation (a completion from finally overrides the pending one), labelled statements and
// LoopContinues, ForIn/OfBodyEvaluation with IteratorClose (the original throw wins over errors from return(); return()'s
// result must be an object otherwise; no close when next() itself threw, returned a non-object or reported done),
// IteratorBindingInitialization for array destructuring, spread, yield, yield* delegation, the generator state machine
// (suspendedStart / suspendedYield / executing / completed), GeneratorResumeAbrupt, and async functions driven by a FIFO
// job queue. An uncatchable condition ("fatal") propagates through everything and runs no finally and no return().

type mValue interface{}

type mUndef struct{}
type mErr struct{ kind string }    // an engine-created error object (TypeError ...)
type mArr struct{ elems []mValue } // array literal used as an iterable
type mIterRes struct {             // an iterator result object
	value mValue
	done  bool
	obs   int // != 0: 'done' and 'value' are accessors that log A(obs, 0) / A(obs, 1) when read (mkIt flag 4)
}
type mPromise struct {
	tampered  bool // its 'constructor' is not %Promise%: PromiseResolve(%Promise%, p) does not return p itself
	state     int  // 0 pending 1 fulfilled 2 rejected
	value     mValue
	reactions []func(state int, v mValue)
}

var undef = mUndef{}

func mDescribe(v mValue) string {
	switch v := v.(type) {
	case nil:
		return "undefined"
	case mUndef:
		return "undefined"
	case int:
		return fmt.Sprintf("int64:%d", v)
	case *mErr:
		return "[Error:" + v.kind + "]"
	case *mIt, *mIb, *mGen, *mArr, *mIterRes, *mPromise:
		return "[Object]"
	}
	return fmt.Sprintf("?%T", v)
}

func mNorm(v mValue) int {
	if n, ok := v.(int); ok {
		return n
	}
	return -1
}

func mTruthy(v mValue) bool {
	switch v := v.(type) {
	case int:
		return v != 0
	case mUndef, nil:
		return false
	}
	return true
}

const (
	cNormal = iota
	cBreak
	cContinue
	cReturn
	cThrow
	cFatal
)

type completion struct {
	t     int
	v     mValue
	label string
}

var normalC = completion{t: cNormal}

func throwC(v mValue) completion { return completion{t: cThrow, v: v} }
func mTypeErr() completion       { return throwC(&mErr{kind: "TypeError"}) }

// mIt mirrors the JS helper mkIt(s, n, fl).
type mIt struct {
	site, n, flags, i int
}

// mIb mirrors mkIb(s, n, fl): GetIterator calls its [Symbol.iterator]() method, a probe (site+3).
type mIb struct {
	site, n, flags int
	drv            *EDrive // driver operation performed by [Symbol.iterator]() when its decision is 3
}

const (
	gSuspendedStart = iota
	gSuspendedYield
	gExecuting
	gCompleted
)

type resumeMsg struct {
	kind int // cNormal: next(v); cThrow; cReturn; cFatal: kill the coroutine silently
	v    mValue
}
type yieldMsg struct {
	done bool       // the body completed
	c    completion // if done: its completion (normal/return -> value, throw, fatal)
	v    mValue     // if !done: yielded value (or an iterator result object passed through by yield*)
	raw  bool       // v is an inner iterator result to be handed to the driver as is
}

type mGen struct {
	fn       *Func
	args     []mValue
	state    int
	resumeCh chan resumeMsg
	yieldCh  chan yieldMsg
	started  bool
}

type mFrame struct {
	fn     *Func
	locals map[string]mValue
	gen    *mGen    // generator activation
	async  *mAsyncA // async activation
}

type mAsyncA struct {
	resumeCh chan resumeMsg
	yieldCh  chan yieldMsg // used as "awaiting promise" channel: v = promise awaited
	promise  *mPromise
}

type ctlModel struct {
	prog    *Program
	funcs   map[string]*Func
	globals map[string]mValue
	log     []Event
	probes  int
	decide  func(k int) int // decision for the k-th probe (0 = benign); 1000 = interrupt
	gens    []*mGen
	asyncs  []*mAsyncA
	jobs    []func()
	steps   int
	budget  int
	over    bool

	fatalInJob bool
}

func newFrame(fn *Func, args []mValue) *mFrame {
	fr := &mFrame{fn: fn, locals: map[string]mValue{}}
	for _, l := range fn.Locals {
		fr.locals[l] = 0
	}
	for i, p := range fn.Params {
		if i < len(args) {
			fr.locals[p] = args[i]
		} else {
			fr.locals[p] = undef
		}
	}
	return fr
}

func (m *ctlModel) logEv(kind string, site int, arg string) {
	m.log = append(m.log, Event{Kind: kind, Site: site, Arg: arg})
}

// probe logs and returns (decision, fatal).
func (m *ctlModel) probe(site int, arg string) (int, bool) {
	m.logEv("P", site, arg)
	k := m.probes
	m.probes++
	d := m.decide(k)
	if d >= 1000 {
		return 0, true
	}
	return d, false
}

func (m *ctlModel) tick() bool {
	m.steps++
	if m.steps > m.budget {
		m.over = true
		return true
	}
	return false
}

// ---- iterator protocol over model values --------------------------------------------------------------------------

type mIterRec struct {
	obj  mValue // *mIt, *mGen, or *mArrIter
	done bool
}

type mArrIter struct {
	arr *mArr
	i   int
}

func (m *ctlModel) getIterator(v mValue) (*mIterRec, completion) {
	switch v := v.(type) {
	case *mIt, *mGen:
		return &mIterRec{obj: v}, normalC
	case *mArr:
		return &mIterRec{obj: &mArrIter{arr: v}}, normalC
	case *mIb:
		d, fatal := m.probe(v.site+3, "undefined")
		if fatal {
			return nil, completion{t: cFatal}
		}
		switch d % 4 {
		case 1:
			return nil, throwC(1000 + v.site + 3)
		case 2:
			return nil, mTypeErr() // the method returned a non-object
		case 3:
			if v.drv != nil {
				// the method drives a generator (possibly the one whose yield* is asking for this iterator: it is
				// running, so that is a TypeError thrown out of the method)
				if _, c := m.eval(nil, v.drv); c.t != cNormal {
					return nil, c
				}
			}
		}
		return &mIterRec{obj: &mIt{site: v.site, n: v.n, flags: v.flags}}, normalC
	}
	return nil, mTypeErr()
}

// callNext returns the raw result of calling next(v) on the iterator: an *mIterRes, or another value (non-object).
func (m *ctlModel) callNext(it mValue, v mValue) (mValue, completion) {
	switch it := it.(type) {
	case *mArrIter:
		if it.i < len(it.arr.elems) {
			it.i++
			return &mIterRes{value: it.arr.elems[it.i-1]}, normalC
		}
		return &mIterRes{value: undef, done: true}, normalC
	case *mIt:
		d, fatal := m.probe(it.site, mDescribe(v))
		if fatal {
			return nil, completion{t: cFatal}
		}
		switch d % 4 {
		case 1:
			return nil, throwC(1000 + it.site)
		case 2:
			return &mIterRes{value: undef, done: true, obs: it.obs()}, normalC
		case 3:
			return 5, normalC
		}
		if it.i < it.n {
			it.i++
			return &mIterRes{value: 10*it.site + it.i - 1, obs: it.obs()}, normalC
		}
		return &mIterRes{value: 77, done: true, obs: it.obs()}, normalC
	case *mGen:
		return m.genResume(it, resumeMsg{kind: cNormal, v: v})
	}
	return nil, mTypeErr()
}

func (it *mIt) obs() int {
	if it.flags&4 != 0 {
		return it.site
	}
	return 0
}

// resDone / resValue: reading 'done' / 'value' of an iterator result object (observable when the object has accessors).
func (m *ctlModel) resDone(r *mIterRes) bool {
	if r.obs != 0 {
		m.logEv("A", r.obs, "int64:0")
	}
	return r.done
}

func (m *ctlModel) resValue(r *mIterRes) mValue {
	if r.obs != 0 {
		m.logEv("A", r.obs, "int64:1")
	}
	return r.value
}

func hasReturn(it mValue) bool {
	switch it := it.(type) {
	case *mIt:
		return it.flags&1 != 0
	case *mGen:
		return true
	}
	return false // array iterators have no return method
}

func hasThrow(it mValue) bool {
	switch it := it.(type) {
	case *mIt:
		return it.flags&2 != 0
	case *mGen:
		return true
	}
	return false
}

func (m *ctlModel) callReturn(it mValue, v mValue) (mValue, completion) {
	switch it := it.(type) {
	case *mIt:
		d, fatal := m.probe(it.site+1, mDescribe(v))
		if fatal {
			return nil, completion{t: cFatal}
		}
		switch d % 4 {
		case 1:
			return nil, throwC(1000 + it.site + 1)
		case 2:
			return 5, normalC
		case 3:
			return &mIterRes{value: 3, obs: it.obs()}, normalC
		}
		return &mIterRes{value: mNorm(v) + 100, done: true, obs: it.obs()}, normalC
	case *mGen:
		return m.genResume(it, resumeMsg{kind: cReturn, v: v})
	}
	return nil, mTypeErr()
}

func (m *ctlModel) callThrow(it mValue, v mValue) (mValue, completion) {
	switch it := it.(type) {
	case *mIt:
		d, fatal := m.probe(it.site+2, mDescribe(v))
		if fatal {
			return nil, completion{t: cFatal}
		}
		switch d % 4 {
		case 1:
			return &mIterRes{value: 7, obs: it.obs()}, normalC
		case 2:
			return &mIterRes{value: 9, done: true, obs: it.obs()}, normalC
		case 3:
			return 5, normalC
		}
		return nil, throwC(v)
	case *mGen:
		return m.genResume(it, resumeMsg{kind: cThrow, v: v})
	}
	return nil, mTypeErr()
}

// iteratorStep: (value, done, completion). Sets rec.done on abrupt completion / done, as the specification does.
func (m *ctlModel) iteratorStep(rec *mIterRec) (mValue, bool, completion) {
	r, c := m.callNext(rec.obj, undef)
	if c.t != cNormal {
		rec.done = true
		return nil, true, c
	}
	res, ok := r.(*mIterRes)
	if !ok {
		rec.done = true
		return nil, true, mTypeErr()
	}
	if m.resDone(res) {
		rec.done = true
		return nil, true, normalC
	}
	return m.resValue(res), false, normalC
}

// iteratorClose(rec, completion) per 7.4.9.
func (m *ctlModel) iteratorClose(rec *mIterRec, c completion) completion {
	if c.t == cFatal {
		return c
	}
	if !hasReturn(rec.obj) {
		return c
	}
	r, rc := m.callReturn(rec.obj, undef)
	if rc.t == cFatal {
		return rc
	}
	if c.t == cThrow {
		return c
	}
	if rc.t == cThrow {
		return rc
	}
	if _, ok := r.(*mIterRes); !ok {
		return mTypeErr()
	}
	return c
}

// ---- generators as coroutines ------------------------------------------------------------------------------------

func (m *ctlModel) newGen(fn *Func, args []mValue) *mGen {
	g := &mGen{fn: fn, args: args, state: gSuspendedStart, resumeCh: make(chan resumeMsg), yieldCh: make(chan yieldMsg)}
	m.gens = append(m.gens, g)
	return g
}

// genResume implements next/throw/return on a generator object and returns the iterator result handed to the caller.
func (m *ctlModel) genResume(g *mGen, msg resumeMsg) (mValue, completion) {
	if g.state == gExecuting {
		return nil, mTypeErr()
	}
	if g.state == gSuspendedStart && msg.kind != cNormal {
		g.state = gCompleted // abrupt resumption before start completes the generator
	}
	if g.state == gCompleted {
		switch msg.kind {
		case cThrow:
			return nil, throwC(msg.v)
		case cReturn:
			return &mIterRes{value: msg.v, done: true}, normalC
		}
		return &mIterRes{value: undef, done: true}, normalC
	}
	if g.state == gSuspendedStart {
		g.started = true
		g.state = gExecuting
		go m.genBody(g)
		// the first next() value is ignored
	} else {
		g.state = gExecuting
		g.resumeCh <- msg
	}
	y := <-g.yieldCh
	if y.done {
		g.state = gCompleted
		switch y.c.t {
		case cThrow, cFatal:
			return nil, y.c
		}
		v := y.c.v
		if v == nil {
			v = undef
		}
		return &mIterRes{value: v, done: true}, normalC
	}
	g.state = gSuspendedYield
	if y.raw {
		return y.v, normalC
	}
	return &mIterRes{value: y.v}, normalC
}

func (m *ctlModel) genBody(g *mGen) {
	fr := newFrame(g.fn, g.args)
	fr.gen = g
	c := m.execStmts(fr, g.fn.Body)
	switch c.t {
	case cReturn, cNormal:
		c.t = cReturn
	}
	g.yieldCh <- yieldMsg{done: true, c: c}
}

// yield suspends the generator body; returns the resumption as (value, completion).
func (m *ctlModel) yield(fr *mFrame, v mValue, raw bool) (mValue, completion) {
	g := fr.gen
	g.yieldCh <- yieldMsg{v: v, raw: raw}
	msg := <-g.resumeCh
	switch msg.kind {
	case cNormal:
		return msg.v, normalC
	case cThrow:
		return nil, throwC(msg.v)
	case cReturn:
		return nil, completion{t: cReturn, v: msg.v}
	}
	return nil, completion{t: cFatal}
}

// killAll releases every suspended coroutine at the end of a run (no events are produced: fatal runs nothing).
func (m *ctlModel) killAll() {
	for _, g := range m.gens {
		if g.started && g.state == gSuspendedYield {
			g.state = gExecuting
			g.resumeCh <- resumeMsg{kind: cFatal}
			<-g.yieldCh
			g.state = gCompleted
		}
	}
	for _, a := range m.asyncs {
		if a.resumeCh != nil {
			select {
			case a.resumeCh <- resumeMsg{kind: cFatal}:
				<-a.yieldCh
			default:
			}
		}
	}
}

// ---- promises / async (only what async functions over ints and native promises need) -----------------------------

func (m *ctlModel) settle(p *mPromise, state int, v mValue) {
	if p.state != 0 {
		return
	}
	p.state, p.value = state, v
	rs := p.reactions
	p.reactions = nil
	for _, r := range rs {
		r := r
		m.jobs = append(m.jobs, func() { r(state, v) })
	}
}

func (m *ctlModel) then(p *mPromise, r func(state int, v mValue)) {
	if p.state == 0 {
		p.reactions = append(p.reactions, r)
		return
	}
	st, v := p.state, p.value
	m.jobs = append(m.jobs, func() { r(st, v) })
}

func (m *ctlModel) promiseResolve(v mValue) *mPromise {
	if p, ok := v.(*mPromise); ok {
		if !p.tampered {
			return p
		}
		// a new promise resolved with the thenable p: NewPromiseResolveThenableJob calls p.then(resolve, reject) in a job
		p2 := &mPromise{}
		m.jobs = append(m.jobs, func() {
			m.then(p, func(state int, val mValue) { m.settle(p2, state, val) })
		})
		return p2
	}
	p := &mPromise{}
	m.settle(p, 1, v)
	return p
}

// startAsync runs the body synchronously up to its first await and returns the function's promise.
func (m *ctlModel) startAsync(fn *Func, args []mValue) (*mPromise, completion) {
	a := &mAsyncA{resumeCh: make(chan resumeMsg), yieldCh: make(chan yieldMsg), promise: &mPromise{}}
	m.asyncs = append(m.asyncs, a)
	fr := newFrame(fn, args)
	fr.async = a
	go func() {
		c := m.execStmts(fr, fn.Body)
		a.yieldCh <- yieldMsg{done: true, c: c}
	}()
	if c := m.asyncStep(a); c.t == cFatal {
		return a.promise, c
	}
	return a.promise, normalC
}

// asyncStep waits for the activation to reach an await or to finish, and wires up the continuation.
func (m *ctlModel) asyncStep(a *mAsyncA) completion {
	y := <-a.yieldCh
	if y.done {
		a.resumeCh = nil
		switch y.c.t {
		case cFatal:
			return y.c
		case cThrow:
			m.settle(a.promise, 2, y.c.v)
		default:
			var v mValue = undef
			if y.c.t == cReturn && y.c.v != nil {
				v = y.c.v
			}
			m.settle(a.promise, 1, v)
		}
		return normalC
	}
	p := m.promiseResolve(y.v)
	m.then(p, func(state int, v mValue) {
		if state == 1 {
			a.resumeCh <- resumeMsg{kind: cNormal, v: v}
		} else {
			a.resumeCh <- resumeMsg{kind: cThrow, v: v}
		}
		if c := m.asyncStep(a); c.t == cFatal {
			m.fatalInJob = true
		}
	})
	return normalC
}

func (m *ctlModel) await(fr *mFrame, v mValue) (mValue, completion) {
	a := fr.async
	a.yieldCh <- yieldMsg{v: v}
	msg := <-a.resumeCh
	switch msg.kind {
	case cNormal:
		return msg.v, normalC
	case cThrow:
		return nil, throwC(msg.v)
	}
	return nil, completion{t: cFatal}
}

// drainJobs runs the FIFO job queue as goja does when the outermost call returns. An uncatchable condition inside a
// job drops the rest of the queue.
func (m *ctlModel) drainJobs() bool {
	for len(m.jobs) > 0 {
		j := m.jobs[0]
		m.jobs = m.jobs[1:]
		j()
		if m.fatalInJob {
			m.jobs = nil
			return true
		}
	}
	return false
}
